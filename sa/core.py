"""CFG, dominance, reachability, def-use and provenance over mirfacts bodies."""
from collections import defaultdict, deque


def callee_of(t):
    """(generic path, resolved path or None) for a call terminator."""
    f = t['f']
    if f['k'] == 'c' and 'fn' in f:
        return f['fn'], f.get('res')
    return None, None


def callee_names(t):
    a, b = callee_of(t)
    return [x for x in (a, b) if x]


def is_call_to(t, *names):
    """True when terminator t is a call whose generic or resolved callee path
    equals / ends with one of names."""
    if t['k'] != 'call':
        return False
    for c in callee_names(t):
        for n in names:
            if c == n or c.endswith('::' + n) or c.endswith(n):
                return True
    return False


class B:
    """Analysis wrapper around one MIR body."""
    PROGRAM = None

    def __init__(self, body):
        self.b = body
        self.path = body['path']
        self.blocks = body['blocks']
        self.n = len(self.blocks)
        self._succ = {}
        self._pred = None
        self._dom = None
        self._defs = None
        self._uses = None

    # ------------------------------------------------------------ edges ---
    def succ(self, i, unwind=False):
        key = (i, unwind)
        if key in self._succ:
            return self._succ[key]
        t = self.blocks[i]['t']
        k = t['k']
        out = []
        if k in ('goto', 'falseunwind', 'drop', 'assert', 'call', 'yield'):
            if t.get('t') is not None:
                out.append(t['t'])
            if k == 'yield' and unwind and t.get('drop') is not None:
                out.append(t['drop'])
        elif k == 'falseedge':
            out.append(t['t'])   # imaginary edges are not real control flow
        elif k == 'switch':
            for _, b in t['cases']:
                if b not in out:
                    out.append(b)
            if t['else'] not in out:
                out.append(t['else'])
        if unwind and t.get('u') is not None:
            out.append(t['u'])
        # edges into `unreachable` blocks (the impossible arm of an exhaustive match) are not control flow
        out = [s for s in out if self.blocks[s]['t']['k'] != 'unreachable']
        self._succ[key] = out
        return out

    def preds(self):
        if self._pred is None:
            p = defaultdict(list)
            for i in range(self.n):
                for s in self.succ(i):
                    p[s].append(i)
            self._pred = p
        return self._pred

    def reachable(self, start=0, removed_blocks=(), removed_edges=(), unwind=False):
        """Set of blocks reachable from start (start itself included unless removed)."""
        rb = set(removed_blocks)
        re_ = set(removed_edges)
        if start in rb:
            return set()
        seen = {start}
        dq = deque([start])
        while dq:
            x = dq.popleft()
            for s in self.succ(x, unwind):
                if s in rb or (x, s) in re_ or s in seen:
                    continue
                seen.add(s)
                dq.append(s)
        return seen

    def live_blocks(self):
        return self.reachable(0)

    def is_unreachable_block(self, i):
        return self.blocks[i]['t']['k'] == 'unreachable'

    def edge_dominates(self, edge, target):
        """Every path entry->target uses edge (a,b)."""
        if target not in self.reachable(0):
            return False
        return target not in self.reachable(0, removed_edges=[edge])

    def block_dominates(self, a, target):
        if a == target:
            return True
        return target in self.reachable(0) and target not in self.reachable(0, removed_blocks=[a])

    def return_blocks(self):
        return [i for i in range(self.n) if self.blocks[i]['t']['k'] == 'ret']

    def all_paths_pass(self, frm, through_blocks, to_blocks=None, removed_edges=()):
        """Every path from block frm to any of to_blocks (default: returns)
        passes through one of through_blocks.  frm itself counts if listed."""
        if to_blocks is None:
            to_blocks = self.return_blocks()
        if frm in through_blocks:
            return True
        r = self.reachable(frm, removed_blocks=through_blocks, removed_edges=removed_edges)
        return not any(t in r for t in to_blocks)

    # ----------------------------------------------------------- def-use ---
    def defs(self):
        """local -> list of ('s', bb, idx, stmt) | ('t', bb, term) whole-local definitions."""
        if self._defs is None:
            d = defaultdict(list)
            for i, blk in enumerate(self.blocks):
                for j, st in enumerate(blk['s']):
                    if st['k'] == '=' and not st['pl'].get('p'):
                        d[st['pl']['l']].append(('s', i, j, st))
                t = blk['t']
                if t['k'] == 'call' and not t['dst'].get('p'):
                    d[t['dst']['l']].append(('t', i, None, t))
            self._defs = d
        return self._defs

    def single_def(self, local):
        ds = self.defs().get(local, [])
        if len(ds) == 1:
            return ds[0]
        return None

    def ret_sources(self):
        """locals whose value is handed to the return slot by plain moves (the return slot itself included): where a spliced-in helper's own
        result slot ends up"""
        r = self.__dict__.get('_ret_srcs')
        if r is None:
            r = {0}
            for _ in range(3):
                for blk in self.blocks:
                    for st in blk['s']:
                        if st['k'] == '=' and not st['pl'].get('p') and st['pl']['l'] in r and st['rv']['k'] == 'use' and st['rv']['op'].get('k') in ('cp', 'mv') \
                                and not st['rv']['op']['pl'].get('p'):
                            r.add(st['rv']['op']['pl']['l'])
            self.__dict__['_ret_srcs'] = r
        return r

    def is_ret_slot(self, l):
        return l in self.ret_sources()

    def reaching_def(self, l, at):
        """the only whole-local definition of l that can reach the position at=(bb, idx) (idx None: the block's terminator);
        None when several can (or none).  Reaching definitions over the CFG; a call's destination is defined on its return edge only."""
        ds = self.defs().get(l, [])
        if len(ds) < 2 or at is None:
            return None
        bb, idx = at
        lastin = None
        for d in ds:
            if d[1] == bb and d[0] == 's' and (idx is None or d[2] < idx):
                if lastin is None or d[2] > lastin[2]:
                    lastin = d
        if lastin is not None:
            return lastin
        s = self._reach_in(l).get(bb)
        if s is not None and len(s) == 1:
            i = next(iter(s))
            return ds[i] if i >= 0 else None
        return None

    def reaching_defs(self, l, at):
        """all whole-local definitions of l that can reach the position at=(bb, idx); -1 entries (the value at entry) are dropped"""
        ds = self.defs().get(l, [])
        if len(ds) <= 1 or at is None:
            return list(ds)
        bb, idx = at
        lastin = None
        for d in ds:
            if d[1] == bb and d[0] == 's' and (idx is None or d[2] < idx):
                if lastin is None or d[2] > lastin[2]:
                    lastin = d
        if lastin is not None:
            return [lastin]
        s = self._reach_in(l).get(bb) or ()
        return [ds[i] for i in sorted(s) if i >= 0]

    def ref_targets(self, pl, at, depth=0):
        """The places a reference-valued place may point to at position `at`: follows copies, `Some(r)` / tuple literals that
        are taken apart again, and every definition that can reach the position.  None entries: a target that is not a plain
        borrow in this body (a call result, a parameter)."""
        if depth > 12:
            return [None]
        projs = [e for e in (pl.get('p') or [])]
        defs = self.reaching_defs(pl['l'], at)
        if not defs:
            return [None]
        out = []
        for d in defs:
            if d[0] != 's':
                out.append(None)
                continue
            rv = d[3]['rv']
            at2 = (d[1], d[2])
            if rv['k'] == 'ref' and not projs:
                tp = rv['pl']
                tps = tp.get('p') or []
                if tps and tps[0] == '*':
                    # a reborrow `&mut *r` / `&mut (*r).f`: whatever r points to (when r is itself a borrow made here)
                    for bt in self.ref_targets({'l': tp['l'], 'p': []}, at2, depth + 1):
                        out.append(tp if bt is None else {'l': bt['l'], 'p': list(bt.get('p') or []) + list(tps[1:])})
                else:
                    out.append(tp)
            elif rv['k'] == 'use' and rv['op'].get('k') in ('cp', 'mv'):
                pl2 = {'l': rv['op']['pl']['l'], 'p': list(rv['op']['pl'].get('p') or []) + projs}
                out += self.ref_targets(pl2, at2, depth + 1)
            elif rv['k'] == 'agg' and projs:
                ps = projs
                if isinstance(ps[0], dict) and 'dc' in ps[0]:
                    if rv.get('vi') is not None and rv.get('vi') != ps[0]['dc']:
                        continue            # another variant: this definition is not the one taken apart here
                    ps = ps[1:]
                if ps and isinstance(ps[0], dict) and 'f' in ps[0] and ps[0]['f'] < len(rv.get('ops') or []):
                    op = rv['ops'][ps[0]['f']]
                    if op.get('k') in ('cp', 'mv'):
                        pl2 = {'l': op['pl']['l'], 'p': list(op['pl'].get('p') or []) + ps[1:]}
                        out += self.ref_targets(pl2, at2, depth + 1)
                        continue
                out.append(None)
            else:
                out.append(None)
        return out

    def _reach_in(self, l):
        cache = self.__dict__.setdefault('_reach_cache', {})
        if l in cache:
            return cache[l]
        ds = self.defs().get(l, [])
        n = len(self.blocks)
        last_s, term_def = {}, {}
        for i, d in enumerate(ds):
            if d[0] == 's':
                if d[1] not in last_s or ds[last_s[d[1]]][2] < d[2]:
                    last_s[d[1]] = i
            else:
                term_def[d[1]] = i

        def succ_edges(b):
            t = self.blocks[b]['t']
            out = []
            for k in ('t', 'u', 'else', 'drop'):      # the imaginary edge of a FalseEdge is never taken
                if isinstance(t.get(k), int):
                    out.append((t[k], k == 't'))
            for _, x in t.get('cases') or ():
                out.append((x, True))
            return out
        IN = {0: {-1}}
        work = [0]
        while work:
            b = work.pop()
            cur = IN.get(b, set())
            pre = {last_s[b]} if b in last_s else cur
            for (s_, normal) in succ_edges(b):
                if not (0 <= s_ < n):
                    continue
                o = {term_def[b]} if (normal and b in term_def) else pre
                have = IN.get(s_)
                if have is None:
                    IN[s_] = set(o)
                    work.append(s_)
                elif not o <= have:
                    have |= o
                    work.append(s_)
        cache[l] = IN
        return IN

    def local_ty(self, l):
        return self.b['locals'][l]['ty']

    def local_name(self, l):
        return self.b['locals'][l].get('n')

    def calls(self, live_only=True):
        live = self.live_blocks() if live_only else None
        for i, blk in enumerate(self.blocks):
            if live is not None and i not in live:
                continue
            t = blk['t']
            if t['k'] == 'call':
                yield i, t

    def stmts(self, live_only=True):
        live = self.live_blocks() if live_only else None
        for i, blk in enumerate(self.blocks):
            if live is not None and i not in live:
                continue
            for j, st in enumerate(blk['s']):
                yield i, j, st

    # -------------------------------------------------------- provenance ---
    PASS_THROUGH = (
        'core::clone::Clone::clone', 'core::ops::deref::Deref::deref',
        'core::ops::deref::DerefMut::deref_mut', 'core::convert::Into::into',
        'core::convert::From::from', 'core::convert::AsRef::as_ref',
        'core::borrow::Borrow::borrow', 'alloc::borrow::ToOwned::to_owned',
        'core::convert::AsMut::as_mut', 'core::option::Option::<T>::as_ref',
        'core::option::Option::<T>::as_mut',
        'alloc::string::String::as_str', 'alloc::vec::Vec::<T, A>::as_slice',
        'core::option::Option::<T>::take', 'core::option::Option::<&T>::cloned',
        'core::option::Option::<&T>::copied',
        'alloc::string::ToString::to_string',
        'core::pin::Pin::<Ptr>::new', 'core::pin::Pin::<&'"'"'a mut T>::get_mut', 'core::pin::Pin::<Ptr>::new_unchecked',
        'core::future::into_future::IntoFuture::into_future',
    )

    # combinators that keep the Ok/Some payload of their receiver unchanged
    OK_PRESERVING = (
        'core::option::Option::<T>::ok_or_else', 'core::option::Option::<T>::ok_or',
        'core::result::Result::<T, E>::map_err', 'core::result::Result::<T, E>::or_else',
        'core::result::Result::<T, E>::ok',
    )

    def origin(self, op, depth=0, through_calls=True, at=None):
        """Backward slice of an operand to a canonical origin:
           ('const', value) | ('fnref', path) | ('arg', n, projs) |
           ('call', callee, bb, projs) | ('local', n, projs) | ('agg', rv, bb) |
           ('bin', op, a, b) | ('unknown',)
        projs is a tuple of field names / '*' applied on top of the origin."""
        if op is None:
            return ('unknown',)
        if op['k'] == 'c':
            if 'v' in op:
                return ('const', op['v'])
            if 's' in op:
                return ('const', op['s'])
            if 'fn' in op:
                return ('fnref', op['fn'])
            return ('const', op.get('d'))
        if op['k'] in ('cp', 'mv'):
            return self.origin_place(op['pl'], depth, through_calls, at)
        return ('unknown',)

    def origin_place(self, pl, depth=0, through_calls=True, at=None):
        projs = list(self._proj_names(pl.get('p') or []))
        if pl['l'] == 1 and projs and self.b.get('upvars'):
            first = (pl.get('p') or [None])[0]
            if isinstance(first, dict) and 'f' in first:
                for u in self.b['upvars']:
                    up = u['pl'].get('p') or []
                    if u['pl']['l'] == 1 and len(up) == 1 and isinstance(up[0], dict) and up[0].get('f') == first['f']:
                        projs[0] = 'upvar:' + u['n']
        projs = tuple(projs)
        base = self._origin_local(pl['l'], depth, through_calls, at)
        if base[0] == 'agg' and projs and depth < 40:
            r = self._project_literal(base, projs, depth, through_calls)
            if r is not None:
                return r
        return self._with_projs(base, projs)

    def _project_literal(self, base, projs, depth, through_calls):
        """`(a, b).0`, `S { f: x }.f`, `(Some(x) as Some).0` of a tuple / struct / variant literal built in this body: the operand itself"""
        rv = base[1]
        ps = list(projs)
        if rv.get('ak') == 'adt' and ps and ps[0].startswith('as:'):
            if ps[0][3:] != str(rv.get('var')):
                return None
            ps = ps[1:]
        if not ps or rv.get('ak') not in ('adt', 'tuple'):
            return None
        ops = rv.get('ops') or []
        names = [str(x) for x in (rv.get('fn') or [])] if rv.get('ak') == 'adt' else [str(i) for i in range(len(ops))]
        if len(names) != len(ops) or ps[0] not in names:
            return None
        o = self.origin(ops[names.index(ps[0])], depth + 1, through_calls, (base[2], None))
        rest = tuple(ps[1:])
        if o[0] == 'agg' and rest:
            r = self._project_literal(o, rest, depth + 1, through_calls)
            if r is not None:
                return r
        return self._with_projs(o, rest)

    @staticmethod
    def _proj_names(ps):
        out = []
        for e in ps:
            if e == '*':
                continue  # derefs are transparent for provenance
            if isinstance(e, dict) and 'f' in e:
                out.append(e['n'])
            elif isinstance(e, dict) and 'dc' in e:
                out.append('as:' + str(e.get('n', e['dc'])))
            elif isinstance(e, dict) and 'idx' in e:
                out.append('[]')
            elif isinstance(e, dict) and 'cidx' in e:
                out.append('[%d]' % e['cidx'])
            else:
                out.append('?')
        return out

    @staticmethod
    def _with_projs(base, projs):
        if not projs:
            return base
        if base[0] == 'try' and projs[:2] == ('as:Continue', '0'):
            return B._with_projs(B._payload(base[1]), projs[2:])
        if base[0] == 'try_lit' and projs[:2] == ('as:Continue', '0'):
            return B._with_projs(base[1], projs[2:])
        if base[0] == 'awaited' and projs[:2] == ('as:Ready', '0'):
            return B._with_projs(('awaited_value', base[1]), projs[2:])
        if base[0] in ('arg', 'local'):
            return (base[0], base[1], tuple(base[2]) + projs)
        if base[0] == 'call':
            return ('call', base[1], base[2], tuple(base[3]) + projs)
        if base[0] == 'agg':
            # project into an aggregate: pick the operand
            return ('proj', base, projs)
        return ('proj', base, projs)

    @staticmethod
    def _payload(o):
        """the Ok/Some payload of an Option/Result-valued origin (kept symbolic)"""
        return ('payload', o) if o[0] != 'payload' else o

    def _origin_local(self, l, depth, through_calls, at=None):
        if depth > 40:
            return ('local', l, ())
        if 1 <= l <= self.b['argc']:
            # arguments may be re-assigned, but that is rare; treat as arg
            if not self.defs().get(l):
                return ('arg', l, ())
        d = self.single_def(l)
        if d is None and at is not None:
            # several definitions, but only one of them can reach the place the value is read at
            d = self.reaching_def(l, at)
        if d is None:
            return ('local', l, ())
        kind, bb, idx, node = d
        at2 = (bb, idx)
        if kind == 's':
            rv = node['rv']
            k = rv['k']
            if k == 'use':
                return self.origin(rv['op'], depth + 1, through_calls, at2)
            if k == 'ref' or k == 'rawptr':
                return self.origin_place(rv['pl'], depth + 1, through_calls, at2)
            if k == 'cast':
                o = self.origin(rv['op'], depth + 1, through_calls, at2)
                return ('cast', rv['from'], rv['to'], o)
            if k == 'agg':
                return ('agg', rv, bb)
            if k == 'bin':
                return ('bin', rv['op'], self.origin(rv['a'], depth + 1, through_calls, at2),
                        self.origin(rv['b'], depth + 1, through_calls, at2))
            if k == 'un':
                return ('un', rv['op'], self.origin(rv['a'], depth + 1, through_calls, at2))
            if k == 'discr':
                return ('discr', self.origin_place(rv['pl'], depth + 1, through_calls, at2))
            return ('unknown',)
        else:
            t = node
            g, r = callee_of(t)
            if through_calls and g is not None and t['args']:
                for n in (g, r):
                    if n and any(n == p or n.startswith(p) for p in self.PASS_THROUGH):
                        return self.origin(t['args'][0], depth + 1, through_calls, at2)
                if g == 'core::future::future::Future::poll':
                    # `fut.await`: the Ready payload is the output of the future created by ...
                    return ('awaited', self.origin(t['args'][0], depth + 1, through_calls, at2))
                if g == 'core::ops::try_trait::Try::branch':
                    # `x?`: the Continue payload is the Ok/Some payload of x
                    inner_ = self.origin(t['args'][0], depth + 1, through_calls, at2)
                    if inner_[0] == 'agg' and inner_[1].get('var') in ('Ok', 'Some') and len(inner_[1].get('ops') or []) == 1:
                        # `Ok(x)?` (an inlined helper hands its value over like this): the value is x
                        return ('try_lit', self.origin(inner_[1]['ops'][0], depth + 1, through_calls, at2))
                    return ('try', inner_)
                for n in (g, r):
                    if n and n in self.OK_PRESERVING:
                        return self.origin(t['args'][0], depth + 1, through_calls, at2)
            return ('call', r or g, bb, ())

    # ------------------------------------------------------- forward slice ---
    def _op_locals(self, op):
        if op is None or op['k'] not in ('cp', 'mv'):
            return []
        out = [op['pl']['l']]
        for e in op['pl'].get('p') or []:
            if isinstance(e, dict) and 'idx' in e:
                out.append(e['idx'])
        return out

    def _rv_locals(self, rv):
        k = rv['k']
        if k in ('use', 'cast', 'repeat'):
            return self._op_locals(rv['op'])
        if k in ('ref', 'rawptr', 'discr'):
            return [rv['pl']['l']]
        if k == 'bin':
            return self._op_locals(rv['a']) + self._op_locals(rv['b'])
        if k == 'un':
            return self._op_locals(rv['a'])
        if k == 'agg':
            out = []
            for o in rv['ops']:
                out += self._op_locals(o)
            return out
        return []

    def derived_locals(self, seeds):
        """Forward slice: locals whose value is computed from (or refers to) a seed local,
        through assignments and calls (every call propagates arguments -> destination; a call
        taking `&mut x` of a derived... is ignored).  Coarse taint, intraprocedural."""
        derived = set(seeds)
        changed = True
        while changed:
            changed = False
            for blk in self.blocks:
                for st in blk['s']:
                    if st['k'] == '=' and st['pl']['l'] not in derived:
                        if any(l in derived for l in self._rv_locals(st['rv'])):
                            derived.add(st['pl']['l'])
                            changed = True
                t = blk['t']
                if t['k'] == 'call' and t['dst']['l'] not in derived:
                    ls = []
                    for a in t['args']:
                        ls += self._op_locals(a)
                    if any(l in derived for l in ls):
                        derived.add(t['dst']['l'])
                        changed = True
                if t['k'] == 'yield':
                    pass
        return derived

    # ---------------------------------------------------------- booleans ---
    def bool_source(self, op, depth=0):
        """Trace a bool operand through Not/copies: returns (origin_def, negated)
        where origin_def is ('call', bb, term) | ('bin', bb, rv) | ('other', op)."""
        neg = False
        cur = op
        for _ in range(20):
            if cur['k'] not in ('cp', 'mv') or cur['pl'].get('p'):
                return ('other', cur), neg
            d = self.single_def(cur['pl']['l'])
            if d is None:
                return ('other', cur), neg
            kind, bb, idx, node = d
            if kind == 't':
                return ('call', bb, node), neg
            rv = node['rv']
            if rv['k'] == 'use':
                cur = rv['op']
                continue
            if rv['k'] == 'un' and rv['op'] == 'Not':
                neg = not neg
                cur = rv['a']
                continue
            if rv['k'] == 'bin':
                return ('bin', bb, rv), neg
            return ('rv', bb, rv), neg
        return ('other', cur), neg

    def switch_bool_edges(self, bb):
        """For a 2-way switch on a bool: returns (source, true_target, false_target)
        where true/false refer to the *source* value (negations folded in)."""
        t = self.blocks[bb]['t']
        if t['k'] != 'switch' or t['dty'] != 'bool':
            return None
        src, neg = self.bool_source(t['d'])
        f_t = None
        for v, b in t['cases']:
            if v == 0:
                f_t = b
        if f_t is None:
            return None
        t_t = t['else']
        if neg:
            t_t, f_t = f_t, t_t
        return src, t_t, f_t

    # ----------------------------------------------------- enum switches ---
    def switch_on_discr(self, bb):
        """If bb ends in a switch on discriminant(place): (place, ty, cases, else)."""
        t = self.blocks[bb]['t']
        if t['k'] != 'switch':
            return None
        d = t['d']
        if d['k'] not in ('cp', 'mv') or d['pl'].get('p'):
            return None
        df = self.single_def(d['pl']['l'])
        if df is None or df[0] != 's':
            return None
        rv = df[3]['rv']
        if rv['k'] != 'discr':
            return None
        return rv['pl'], rv['ty'], t['cases'], t['else']


def unwrap(o):
    """strip payload / try / awaited wrappers and collect the projections applied on the way:
    returns (base origin, projections tuple)."""
    projs = ()
    for _ in range(40):
        if o is None:
            break
        if o[0] in ('payload', 'try', 'awaited', 'awaited_value'):
            o = o[1]
            continue
        if o[0] == 'proj':
            projs = tuple(o[2]) + projs
            o = o[1]
            continue
        break
    if o is not None:
        if o[0] in ('arg', 'local'):
            projs = tuple(o[2]) + projs
        elif o[0] == 'call':
            projs = tuple(o[3]) + projs
    return o, projs


def strip_generics(path):
    """`a::b::<T>::c` -> `a::b::c` (for loose matching)."""
    out = []
    depth = 0
    for ch in path:
        if ch == '<':
            depth += 1
        elif ch == '>':
            depth -= 1
        elif depth == 0:
            out.append(ch)
    return ''.join(out).replace('::::', '::')


class Program:
    """Whole-workspace view: bodies by path, call graph."""

    def __init__(self, facts):
        self.F = facts
        self._B = {}
        self._cg = None

    def B(self, path):
        if path not in self._B:
            b = self.F.bodies.get(path)
            if b is None:
                return None
            self._B[path] = B(b)
            self._B[path].PROGRAM = self       # closures named by an aggregate can be looked up from inside a body analysis
        return self._B[path]

    def all(self, crate=None):
        for p, b in self.F.bodies.items():
            if crate is None or b['crate'] == crate:
                yield self.B(p)

    def callgraph(self):
        """path -> set of callee paths (workspace bodies only), including closures
        created inside (closure creation counts as a potential call)."""
        if self._cg is not None:
            return self._cg
        cg = defaultdict(set)
        for p in self.F.bodies:
            bb = self.B(p)
            for i, blk in enumerate(bb.blocks):
                t = blk['t']
                if t['k'] == 'call':
                    for c in callee_names(t):
                        if c in self.F.bodies:
                            cg[p].add(c)
                    # function items passed as arguments
                    for a in t['args']:
                        if a['k'] == 'c' and 'fn' in a:
                            for c in (a['fn'], a.get('res')):
                                if c and c in self.F.bodies:
                                    cg[p].add(c)
                for st in blk['s']:
                    if st['k'] == '=':
                        rv = st['rv']
                        if rv['k'] == 'agg' and rv['ak'] in ('closure', 'coroutine', 'coroutine_closure'):
                            if rv['def'] in self.F.bodies:
                                cg[p].add(rv['def'])
                        if rv['k'] == 'use' and rv['op']['k'] == 'c' and 'fn' in rv['op']:
                            for c in (rv['op']['fn'], rv['op'].get('res')):
                                if c and c in self.F.bodies:
                                    cg[p].add(c)
        self._cg = cg
        return cg

    def reachable_from(self, roots):
        cg = self.callgraph()
        seen = set()
        dq = deque(r for r in roots if r in self.F.bodies)
        seen.update(dq)
        while dq:
            x = dq.popleft()
            for c in cg.get(x, ()):
                if c not in seen:
                    seen.add(c)
                    dq.append(c)
        return seen

    def callers_of(self, pred):
        """list of (caller path, bb, term) for calls whose callee satisfies pred(name)."""
        out = []
        for p in self.F.bodies:
            bb = self.B(p)
            for i, t in bb.calls(live_only=False):
                if any(pred(c) for c in callee_names(t)):
                    out.append((p, i, t))
        return out

    def sccs(self, nodes):
        """Tarjan SCCs of the call graph restricted to nodes."""
        cg = self.callgraph()
        index = {}
        low = {}
        stack = []
        on = set()
        res = []
        counter = [0]
        import sys
        sys.setrecursionlimit(10000)

        def strong(v):
            index[v] = low[v] = counter[0]
            counter[0] += 1
            stack.append(v)
            on.add(v)
            for w in cg.get(v, ()):
                if w not in nodes:
                    continue
                if w not in index:
                    strong(w)
                    low[v] = min(low[v], low[w])
                elif w in on:
                    low[v] = min(low[v], index[w])
            if low[v] == index[v]:
                comp = []
                while True:
                    w = stack.pop()
                    on.discard(w)
                    comp.append(w)
                    if w == v:
                        break
                res.append(comp)

        for v in sorted(nodes):
            if v not in index:
                strong(v)
        return res


# ----------------------------------------------------------------------------
# generic helpers used by several property modules

def fold(o):
    """Fold an origin tree to an int constant when possible."""
    if o is None:
        return None
    k = o[0]
    if k == 'const':
        return o[1] if isinstance(o[1], int) else None
    if k == 'cast':
        return fold(o[3])
    if k == 'proj' and o[2] in (('0',), (0,)):
        return fold(o[1])
    if k == 'bin':
        a, b = fold(o[2]), fold(o[3])
        if a is None or b is None:
            return None
        op = o[1].replace('WithOverflow', '').replace('Unchecked', '')
        try:
            return {'Add': a + b, 'Sub': a - b, 'Mul': a * b, 'BitAnd': a & b, 'BitOr': a | b,
                    'Shl': a << b, 'Shr': a >> b}.get(op)
        except Exception:
            return None
    return None


def dominating_edges(B, target):
    """All switch edges (src_bb, value|'else', dst_bb) that every path entry->target takes."""
    out = []
    reach0 = B.reachable(0)
    if target not in reach0:
        return out
    for i in sorted(reach0):
        t = B.blocks[i]['t']
        if t['k'] != 'switch':
            continue
        # group cases by destination: an edge is identified by (src,dst)
        dsts = {}
        for v, b in t['cases']:
            dsts.setdefault(b, []).append(v)
        dsts.setdefault(t['else'], []).append('else')
        for dst, vals in dsts.items():
            if target not in B.reachable(0, removed_edges=[(i, dst)]):
                out.append((i, vals, dst))
    return out


def exclusive_blocks(B, starts):
    """For each start block: the blocks reachable from it and from no other start."""
    reach = {s: B.reachable(s) for s in starts}
    out = {}
    for s in starts:
        others = set()
        for s2 in starts:
            if s2 != s:
                others |= reach[s2]
        out[s] = reach[s] - others
    return out


def snake(name):
    out = []
    for i, ch in enumerate(name):
        if ch.isupper() and i > 0 and (not name[i - 1].isupper()):
            out.append('_')
        out.append(ch.lower())
    return ''.join(out)


def camel_from_upper(name):
    """SEND_SENDER_TT -> SendSenderTt"""
    return ''.join(p[:1].upper() + p[1:].lower() for p in name.split('_'))


ACCESSOR_SUFFIXES = ('::write', '::read', '::lock', '::entry', '::get_mut', '::get', '::iter', '::iter_mut', '::as_mut', '::as_ref',
                     '::borrow_mut', '::borrow', '::unwrap', '::expect', '::value', '::value_mut', '::blocking_write', '::blocking_read', '::next', '::into_iter',
                     '::as_deref', '::as_deref_mut', '::as_slice', '::as_mut_slice', '::deref', '::deref_mut')


def receiver_root(B, op, max_hops=12):
    """Follow a method receiver back through guards/accessors (x.write().await, .lock(), .entry(k), .get(k) ...)
    to the place it is rooted in.  Returns (base origin, projection names accumulated over all hops)."""
    o = B.origin(op)
    acc = ()
    base = None
    for _ in range(max_hops):
        base, projs = unwrap(o)
        acc = tuple(projs) + acc
        if base is not None and base[0] == 'call' and base[1] and any(base[1].endswith(s) for s in ACCESSOR_SUFFIXES):
            t = B.blocks[base[2]]['t']
            if not t['args']:
                return base, acc
            o = B.origin(t['args'][0])
            continue
        return base, acc
    return base, acc


def root_fields(B, op):
    base, projs = receiver_root(B, op)
    return tuple(p for p in projs if isinstance(p, str))


def value_path(B, op, max_hops=24):
    """Names of the calls an operand's value passes through, walking single definitions backwards
    (refs, copies, derefs; at a call: record it and continue with its first argument). Ends with
    ('arg', n) when the walk reaches a parameter. Unlike origin() nothing is treated as transparent."""
    out = []
    cur = op
    for _ in range(max_hops):
        if cur is None or cur.get('k') not in ('cp', 'mv'):
            break
        l = cur['pl']['l']
        if 1 <= l <= B.b['argc']:
            out.append(('arg', l))
            break
        d = B.single_def(l)
        if d is None:
            break
        kind, bb, idx, node = d
        if kind == 't':
            g, r = callee_of(node)
            out.append(r or g or '?')
            cur = node['args'][0] if node['args'] else None
            continue
        rv = node['rv']
        if rv['k'] in ('ref', 'rawptr'):
            cur = {'k': 'cp', 'pl': {'l': rv['pl']['l']}}
        elif rv['k'] in ('use', 'cast'):
            cur = rv['op']
        else:
            break
    return out


# ------------------------------------------------------------ path-sensitive values ----
def acyclic_paths(B, start=0, limit=4000):
    """All loop-free paths of normal (non-unwind) edges from `start` to a return. None when there are more than `limit`."""
    out = []
    stack = [(start, (start,))]
    while stack:
        bb, path = stack.pop()
        t = B.blocks[bb]['t']
        if t['k'] == 'ret':
            out.append(path)
            if len(out) > limit:
                return None
            continue
        for s in B.succ(bb):
            if s in path or B.is_unreachable_block(s):
                continue
            stack.append((s, path + (s,)))
    return out


def path_eval(B, path):
    """Values along ONE path: every local is bound to the expression last assigned to it on this path, so a variable
    assigned differently in two branches has exactly the value of the branch taken.  Returns (env, events) with
    events = [(bb, callee names, [argument expressions], result expression)] in path order.
    Expressions: ('arg', n) ('local', n) ('const', v) ('call', name, bb, args) ('bin', op, a, b) ('un', op, a)
    ('cast', to, a) ('field', base, name) ('agg', what, ops) ('discr', a) ('opaque', bb)."""
    argc = B.b['argc']
    env = {}

    def base(l):
        if l in env:
            return env[l]
        return ('arg', l) if 1 <= l <= argc else ('local', l)

    def place(pl):
        e = base(pl['l'])
        for p in pl.get('p') or []:
            if p == '*':
                continue
            if isinstance(p, dict) and 'dc' in p and e[0] == 'agg' and p.get('n') is not None and str(p.get('n')) == str(e[1]):
                continue        # `(X::V(a) as V).0` on this path is a: the literal stays, the field projection that follows picks the operand
            if isinstance(p, dict) and ('n' in p or 'f' in p):
                nm = p.get('n', str(p.get('f')))
                if e[0] == 'bin' and e[1].endswith('WithOverflow'):
                    e = ('bin', e[1][:-len('WithOverflow')], e[2], e[3]) if str(nm) == '0' else ('opaque', 'overflow-flag')
                elif e[0] == 'agg' and str(nm).isdigit() and int(nm) < len(e[2]):
                    e = e[2][int(nm)]
                else:
                    e = ('field', e, str(nm))
            elif isinstance(p, dict) and 'dc' in p:
                if e[0] == 'agg' and p.get('n') is not None and str(p.get('n')) == str(e[1]):
                    pass        # `(X::V(a) as V).0` on this path is a: the literal stays, the field projection that follows picks the operand
                else:
                    e = ('field', e, 'as:' + str(p.get('dc')))
            else:
                e = ('field', e, str(p))
        return e

    def operand(op):
        if op['k'] == 'c':
            return ('const', op.get('v', op.get('s', op.get('fn'))))
        return place(op['pl'])
    events = []
    for bb in path:
        blk = B.blocks[bb]
        for st in blk['s']:
            if st['k'] != '=':
                continue
            rv = st['rv']
            k = rv['k']
            if k == 'use':
                e = operand(rv['op'])
            elif k in ('ref', 'rawptr'):
                e = place(rv['pl'])
            elif k == 'cast':
                e = ('cast', rv.get('to'), operand(rv['op']))
            elif k == 'bin':
                e = ('bin', rv['op'], operand(rv['a']), operand(rv['b']))
            elif k == 'un':
                e = ('un', rv['op'], operand(rv['a']))
            elif k == 'agg':
                e = ('agg', rv.get('var') or rv.get('ak'), tuple(operand(o) for o in rv['ops']))
            elif k == 'discr':
                e = ('discr', place(rv['pl']))
            else:
                e = ('opaque', bb)
            if not st['pl'].get('p'):
                env[st['pl']['l']] = e
        t = blk['t']
        if t['k'] == 'call':
            names = callee_names(t)
            args = tuple(operand(a) for a in t['args'])
            e = ('call', names[0] if names else '?', bb, args)
            if not t['dst'].get('p'):
                env[t['dst']['l']] = e
            events.append((bb, names, args, e))
    return env, events


def expr_mentions(e, pred):
    """does pred hold for e or any sub-expression?"""
    if pred(e):
        return True
    if isinstance(e, tuple):
        return any(expr_mentions(x, pred) for x in e if isinstance(x, tuple))
    return False


def eval_on_variant(B, variant_index, self_arg=1, max_steps=200):
    """Result of a small pure predicate `fn(&self) -> bool|const` when self is enum variant `variant_index`: follows
    discriminant switches on the argument with that value and constant switches; returns the constant assigned to the
    return place, or None when the walk meets anything it cannot decide."""
    bb, steps, ret = 0, 0, None
    consts = {}
    while steps < max_steps:
        steps += 1
        blk = B.blocks[bb]
        for st in blk['s']:
            if st['k'] != '=':
                continue
            rv = st['rv']
            val = None
            if rv['k'] == 'use' and rv['op']['k'] == 'c' and 'v' in rv['op']:
                val = rv['op']['v']
            elif rv['k'] == 'use' and rv['op']['k'] in ('cp', 'mv') and not rv['op']['pl'].get('p'):
                val = consts.get(rv['op']['pl']['l'])
            elif rv['k'] == 'discr':
                base = rv['pl']['l']
                if base == self_arg or consts.get(('ref', base)) == 'self':
                    val = variant_index
            elif rv['k'] == 'un' and rv['op'] == 'Not' and rv['a']['k'] in ('cp', 'mv'):
                v0 = consts.get(rv['a']['pl']['l'])
                val = (not v0) if isinstance(v0, bool) else ((1 - v0) if v0 in (0, 1) else None)
            if not st['pl'].get('p'):
                consts[st['pl']['l']] = val
                if st['pl']['l'] == 0:
                    ret = val
        t = blk['t']
        if t['k'] in ('goto', 'falseedge', 'falseunwind', 'drop'):
            bb = t['t']
            continue
        if t['k'] == 'ret':
            return ret
        if t['k'] == 'switch':
            d = t['d']
            v = d.get('v') if d['k'] == 'c' else consts.get(d['pl']['l'])
            if v is None:
                return None
            if isinstance(v, bool):
                v = 1 if v else 0
            tgt = [b_ for c_, b_ in t['cases'] if c_ == v]
            bb = tgt[0] if tgt else t['else']
            continue
        return None
    return None
