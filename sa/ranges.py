"""Guard-aware interval analysis over one MIR body.

canon(B, op)      -> hashable identity of the *value* an operand denotes
range_of(B,op,bb) -> (lo, hi) the value is known to lie in at block bb, from its
                     type, constant folding, arithmetic, and the conditions of
                     all switch edges that dominate bb.
Sound but deliberately small: anything not understood widens to the type range.
"""
import re
from .core import callee_of, callee_names, dominating_edges

INF = float('inf')
INT = {
    'u8': (0, 2**8 - 1), 'u16': (0, 2**16 - 1), 'u32': (0, 2**32 - 1), 'u64': (0, 2**64 - 1),
    'u128': (0, 2**128 - 1), 'usize': (0, 2**64 - 1),
    'i8': (-2**7, 2**7 - 1), 'i16': (-2**15, 2**15 - 1), 'i32': (-2**31, 2**31 - 1),
    'i64': (-2**63, 2**63 - 1), 'i128': (-2**127, 2**127 - 1), 'isize': (-2**63, 2**63 - 1),
    'bool': (0, 1), 'char': (0, 0x10FFFF),
}
LEN_MAX = 2**63 - 1

LEN_FNS = (
    'alloc::vec::Vec::<T, A>::len', 'core::slice::<impl [T]>::len', 'alloc::string::String::len',
    'core::str::<impl str>::len', 'bytes::bytes::Bytes::len', 'bytes::bytes_mut::BytesMut::len',
    'alloc::collections::btree::map::BTreeMap::<K, V, A>::len',
    'std::collections::hash::map::HashMap::<K, V, S>::len',
    'std::collections::hash::set::HashSet::<T, S>::len',
    'std::collections::hash::map::HashMap::<K, V, S, A>::len',
    'std::collections::hash::set::HashSet::<T, S, A>::len',
    'alloc::collections::btree::set::BTreeSet::<T, A>::len',
    'alloc::collections::vec_deque::VecDeque::<T, A>::len',
    'core::iter::traits::exact_size::ExactSizeIterator::len',
)
EMPTY_FNS = tuple(x[:-3] + 'is_empty' for x in LEN_FNS)
REMAINING_FNS = ('bytes::buf::buf_impl::Buf::remaining',)
PURE_UNARY = LEN_FNS + REMAINING_FNS + (
    'core::num::<impl i64>::abs', 'core::num::<impl i64>::unsigned_abs',
)
MIN_FNS = ('core::cmp::Ord::min', 'core::cmp::min')
MAX_FNS = ('core::cmp::Ord::max', 'core::cmp::max')
TRANSPARENT = (
    'core::clone::Clone::clone', 'core::ops::deref::Deref::deref', 'core::ops::deref::DerefMut::deref_mut',
    'core::convert::AsRef::as_ref', 'core::borrow::Borrow::borrow', 'core::convert::Into::into',
    'core::convert::From::from', 'alloc::vec::Vec::<T, A>::as_slice',
    'alloc::string::String::as_bytes', 'core::str::<impl str>::as_bytes', 'alloc::string::String::as_str',
    'core::result::Result::<T, E>::map_err', 'core::option::Option::<T>::ok_or_else', 'core::option::Option::<T>::ok_or',
)


def ty_range(ty):
    ty = ty.replace('&mut ', '').replace('&', '').strip()
    return INT.get(ty)


def _match(name_list, t):
    g, r = callee_of(t)
    for n in (g, r):
        if n and n in name_list:
            return True
    return False


def _never_written_in_part(B, l):
    """no statement assigns to a field of local l, no call writes into one, and l is never borrowed mutably: what a literal put into it is still there"""
    cache = B.__dict__.setdefault('_nwp', {})
    if l not in cache:
        ok = True
        for blk in B.blocks:
            for st in blk['s']:
                if st.get('k') != '=':
                    continue
                if st['pl']['l'] == l and st['pl'].get('p'):
                    ok = False
                rv = st['rv']
                if rv.get('k') in ('ref', 'rawptr') and rv['pl']['l'] == l and (rv.get('mut') or rv['k'] == 'rawptr'):
                    ok = False
            t = blk['t']
            if t.get('k') == 'call' and t.get('dst') and t['dst']['l'] == l and t['dst'].get('p'):
                ok = False
        cache[l] = ok
    return cache[l]


def canon_place(B, pl, depth=0, at=None):
    base = _canon_local(B, pl['l'], depth, at)
    projs = []
    for e in pl.get('p') or []:
        if e == '*':
            continue
        if isinstance(e, dict) and 'f' in e:
            projs.append(e['n'])
        elif isinstance(e, dict) and 'dc' in e:
            projs.append('as:' + str(e.get('n', e['dc'])))
        elif isinstance(e, dict) and 'idx' in e:
            projs.append(('idx', _canon_local(B, e['idx'], depth + 1, at)))
        elif isinstance(e, dict) and 'cidx' in e:
            projs.append(('cidx', e['cidx'], e['from_end']))
        else:
            projs.append('?')
    if not projs:
        return base
    # static type of the projected place (last field projection carries it)
    pty = None
    for e in reversed(pl.get('p') or []):
        if e == '*':
            continue
        if isinstance(e, dict) and 'ty' in e:
            pty = e['ty']
        break
    if base[0] == 'call' and str(base[1]).endswith('bool>::then_some') and projs[:2] == ['as:Some', '0']:
        t_ = B.blocks[base[2]]['t']
        if len(t_['args']) > 1:
            inner = canon(B, t_['args'][1], depth + 1)
            if len(projs) == 2:
                return inner
            base, projs = inner, projs[2:]
    if base[0] == 'call' and projs[:2] == ['as:Ok', '0']:
        # `match f() { Ok(v) => .. }` takes the same payload as `f()?`
        base = ('try', base)
        projs = ['as:Continue', '0'] + projs[2:]
    if base[0] == 'try' and projs[:2] == ['as:Continue', '0']:
        base = ('payload', base[1])
        projs = projs[2:]
        if not projs:
            # `Ok(x)?` of a literal is x
            if isinstance(base[1], tuple) and base[1][0] == 'local':
                d_ = B.single_def(base[1][1])
                if d_ and d_[0] == 's' and d_[3]['rv']['k'] == 'agg' and d_[3]['rv'].get('var') in ('Ok', 'Some') and len(d_[3]['rv']['ops']) == 1:
                    return canon(B, d_[3]['rv']['ops'][0], depth + 1)
            return base
    # see through literals: (Ok(x)?) is x, (a, b).1 is b, Some(x) as Some .0 is x - an inlined helper returns its values this way
    for _ in range(6):
        if not projs:
            return base
        if base[0] == 'payload' and isinstance(base[1], tuple) and base[1][0] == 'local':
            d_ = B.single_def(base[1][1])
            if d_ and d_[0] == 's' and d_[3]['rv']['k'] == 'agg' and d_[3]['rv'].get('var') in ('Ok', 'Some', 'Continue', 'Ready') and len(d_[3]['rv']['ops']) == 1:
                base = canon(B, d_[3]['rv']['ops'][0], depth + 1)
                continue
        if base[0] == 'local':
            d_ = B.single_def(base[1])
            if d_ is None and isinstance(projs[0], str) and projs[0].startswith('as:') and len(projs) > 1:
                # several definitions, all of them enum literals (one per arm of the match that chose the variant): behind the downcast
                # `as V` the value can only be the one built as V
                ds_ = B.defs().get(base[1], [])
                if ds_ and all(x[0] == 's' and x[3]['rv']['k'] == 'agg' and x[3]['rv'].get('ak') == 'adt' and 'vi' in x[3]['rv'] for x in ds_) and len({x[3]['rv'].get('adt') for x in ds_}) == 1 \
                        and not str(ds_[0][3]['rv'].get('adt')).startswith('core::'):      # (Option / Result keep their `x.as:Some.0` form: rules name optional parts that way)
                    pick_ = [x for x in ds_ if 'as:' + str(x[3]['rv'].get('var')) == projs[0]]
                    if len(pick_) == 1 and _never_written_in_part(B, base[1]):
                        d_ = pick_[0]
            if d_ and d_[0] == 's' and d_[3]['rv']['k'] == 'agg':
                rv_ = d_[3]['rv']
                if rv_.get('ak') == 'tuple' and isinstance(projs[0], str) and projs[0].isdigit() and int(projs[0]) < len(rv_['ops']):
                    base, projs = canon(B, rv_['ops'][int(projs[0])], depth + 1), projs[1:]
                    continue
                if rv_.get('ak') == 'adt' and isinstance(projs[0], str) and projs[0] == 'as:' + str(rv_.get('var')) and len(projs) > 1 and isinstance(projs[1], str) and projs[1] in (rv_.get('fn') or []):
                    base, projs = canon(B, rv_['ops'][rv_['fn'].index(projs[1])], depth + 1), projs[2:]
                    continue
                if rv_.get('ak') == 'adt' and isinstance(projs[0], str) and not projs[0].startswith('as:') and projs[0] in (rv_.get('fn') or []) and len(rv_.get('fn') or []) == len(rv_['ops']) and _never_written_in_part(B, base[1]):
                    # a field of a struct literal (values gathered into a header struct by a spliced-in helper) is the value that was put there
                    base, projs = canon(B, rv_['ops'][rv_['fn'].index(projs[0])], depth + 1), projs[1:]
                    continue
        break
    if not projs:
        return base
    if base[0] == 'place':
        res = ('place', base[1], base[2] + tuple(projs))
    else:
        res = ('place', base, tuple(projs))
    if pty is not None:
        if not hasattr(B, '_cty'):
            B._cty = {}
        B._cty[res] = pty
    return res


def _canon_local(B, l, depth, at=None):
    if depth > 40:
        return ('local', l)
    if 1 <= l <= B.b['argc'] and not B.defs().get(l):
        return ('arg', l)
    d = B.single_def(l)
    if d is None and at is not None:
        d = B.reaching_def(l, at)        # several definitions, one of which reaches the place the value is read at
    if d is None and at is not None and depth < 12 and B.b.get('n_inlined'):
        # several definitions reach, but they are copies of one computation (the duplicated blocks of jump threading): the value is
        # "l as it is here", annotated with the shape all its definitions share so that what it derives from stays recognisable
        ds = B.reaching_defs(l, at)
        if 2 <= len(ds) <= 6:
            shapes = {_erase(_shape(B, _canon_def(B, l, dd, depth + 8), 0)) for dd in ds}
            if len(shapes) == 1:
                sh = next(iter(shapes))
                if sh != ('local', 0):
                    return ('phi', l, sh)       # (named like a call site: the value of l as defined by these copies)
    if d is None:
        return ('local', l)
    return _canon_def(B, l, d, depth)


def _shape(B, c, depth):
    """canon with locals that hold a one-field literal (Ok(x), Some(x), Ready(x)) spelled out - for comparing and naming shapes only"""
    if not isinstance(c, tuple) or depth > 6:
        return c
    if len(c) >= 2 and c[0] == 'local' and isinstance(c[1], int):
        d_ = B.single_def(c[1])
        if d_ and d_[0] == 's' and d_[3]['rv']['k'] == 'agg' and d_[3]['rv'].get('ak') == 'adt' and len(d_[3]['rv'].get('ops') or []) == 1:
            return ('lit', d_[3]['rv'].get('var'), _shape(B, canon(B, d_[3]['rv']['ops'][0], 20, (d_[1], d_[2])), depth + 1))
        return c
    return tuple(_shape(B, x, depth + 1) if isinstance(x, tuple) else x for x in c)


def _erase(c):
    if isinstance(c, tuple):
        if len(c) == 3 and c[0] == 'call':
            return ('call', c[1], 0)
        if len(c) >= 2 and c[0] == 'local':
            return ('local', 0)
        if c and c[0] == 'phi':
            return _erase(c[2])
        return tuple(_erase(x) if isinstance(x, tuple) else (0 if (c[0] == 'remaining' and isinstance(x, int)) else x) for x in c)
    return c


def _canon_def(B, l, d, depth):
    kind, bb, idx, node = d
    at2 = (bb, idx)
    if kind == 's':
        rv = node['rv']
        k = rv['k']
        if k == 'use':
            return canon(B, rv['op'], depth + 1, at2)
        if k in ('ref', 'rawptr'):
            return canon_place(B, rv['pl'], depth + 1, at2)
        if k == 'cast':
            fr, to = ty_range(rv['from']), ty_range(rv['to'])
            inner = canon(B, rv['op'], depth + 1, at2)
            if fr and to and fr[0] >= to[0] and fr[1] <= to[1]:
                return inner          # widening cast preserves the value
            return ('cast', rv['to'], inner)
        if k == 'bin':
            return ('bin', rv['op'], canon(B, rv['a'], depth + 1, at2), canon(B, rv['b'], depth + 1, at2))
        if k == 'un':
            if rv['op'] == 'PtrMetadata':
                return ('len', canon(B, rv['a'], depth + 1, at2))     # length of a slice reference
            return ('un', rv['op'], canon(B, rv['a'], depth + 1, at2))
        if k == 'discr':
            return ('discr', canon_place(B, rv['pl'], depth + 1, at2))
        return ('local', l)
    t = node
    g, r = callee_of(t)
    if g is None:
        return ('local', l)
    if _match(TRANSPARENT, t) and t['args']:
        return canon(B, t['args'][0], depth + 1, at2)
    if g == 'core::ops::try_trait::Try::branch' and t['args']:
        return ('try', canon(B, t['args'][0], depth + 1, at2))
    if _match(LEN_FNS, t):
        return ('len', canon(B, t['args'][0], depth + 1, at2))
    if _match(REMAINING_FNS, t):
        # remaining() changes as the buffer is consumed: identity includes the call site
        return ('remaining', canon(B, t['args'][0], depth + 1, at2), bb)
    if _match(MIN_FNS, t) and len(t['args']) == 2:
        return ('min', canon(B, t['args'][0], depth + 1, at2), canon(B, t['args'][1], depth + 1, at2))
    if _match(MAX_FNS, t) and len(t['args']) == 2:
        return ('max', canon(B, t['args'][0], depth + 1, at2), canon(B, t['args'][1], depth + 1, at2))
    return ('call', r or g, bb)


def call_args_desc(B, c):
    """canonical values of the arguments of a ('call', name, bb) canon (description only)"""
    t = B.blocks[c[2]]['t']
    return [canon(B, a, 30) for a in t['args']]


def canon(B, op, depth=0, at=None):
    if at is None and depth == 0:
        at = getattr(B, '_cur_at', None)      # the block whose operands are being looked at (set by the site / fact enumerations)
    if op['k'] == 'c':
        if 'v' in op:
            return ('const', op['v'])
        return ('constx', op.get('d'))
    if op['k'] in ('cp', 'mv'):
        pl = op['pl']
        # `(_x.0)` of a checked-arithmetic pair is the arithmetic result itself
        ps = pl.get('p') or []
        if len(ps) == 1 and isinstance(ps[0], dict) and ps[0].get('f') == 0:
            d = B.single_def(pl['l'])
            if d and d[0] == 's' and d[3]['rv']['k'] == 'bin' and d[3]['rv']['op'].endswith('WithOverflow'):
                rv = d[3]['rv']
                return ('bin', rv['op'].replace('WithOverflow', ''), canon(B, rv['a'], depth + 1),
                        canon(B, rv['b'], depth + 1))
        return canon_place(B, pl, depth, at)
    return ('unknown',)


_FIELD_LEN = {}
LEN_CHANGING = ('push', 'pop', 'insert', 'remove', 'clear', 'truncate', 'resize', 'resize_with', 'extend', 'extend_from_slice', 'append', 'drain', 'retain', 'retain_mut', 'dedup',
                'dedup_by', 'dedup_by_key', 'swap_remove', 'split_off', 'set_len', 'reserve', 'shrink_to', 'shrink_to_fit', 'push_back', 'push_front', 'pop_back', 'pop_front', 'take', 'replace', 'swap')


def _fixed_field_len(B, base):
    """the length of `self.<field>` when the field is a vector that every constructor of its struct builds with one constant length and that
    nothing in the workspace ever grows, shrinks, replaces or lends out mutably (a fixed table of slots): that constant, else None"""
    if not (isinstance(base, tuple) and base and base[0] == 'place' and base[2] and isinstance(base[2][-1], str)):
        return None
    fld = base[2][-1]
    P = getattr(B, 'PROGRAM', None)
    if P is None or fld.startswith('as:') or fld.isdigit():
        return None
    key = (id(P), fld)
    if key in _FIELD_LEN:
        return _FIELD_LEN[key]
    _FIELD_LEN[key] = None
    owners = [a for a, d in P.F.adts.items() if a.split('::')[0] in ('erltf', 'edp_client', 'edp_node', 'erltf_serde', 'edp_elixir_terms')
              for v in d.get('variants', []) for f in v.get('fields', []) if f.get('n') == fld and 'Vec<' in str(f.get('ty'))]
    if len(owners) != 1:
        return None
    adt = owners[0]
    from .core import callee_of, root_fields
    consts = set()
    n_ctor = 0
    for q, b in P.F.bodies.items():
        if b.get('crate') not in ('erltf', 'edp_client', 'edp_node', 'erltf_serde', 'edp_elixir_terms') or b.get('kind') not in ('Fn', 'AssocFn', 'Closure'):
            continue
        QB = P.B(q)
        for bb, j, st in QB.stmts():
            if st['k'] != '=':
                continue
            rv = st['rv']
            if rv['k'] == 'agg' and rv.get('adt') == adt and fld in (rv.get('fn') or []):
                n_ctor += 1
                o = QB.origin(rv['ops'][rv['fn'].index(fld)])
                n_ = None
                if o and o[0] == 'call' and str(o[1]).endswith('vec::from_elem'):
                    t_ = QB.blocks[o[2]]['t']
                    if len(t_['args']) > 1:
                        from .core import fold
                        n_ = fold(QB.origin(t_['args'][1]))
                if n_ is None and o and o[0] == 'call' and str(o[1]).endswith('::clone'):
                    t_ = QB.blocks[o[2]]['t']
                    if t_['args'] and fld in root_fields(QB, t_['args'][0]):
                        continue        # a copy of the same field of another value of the type (derived Clone)
                if n_ is None and o and o[0] == 'arg' and fld in [str(x) for x in (o[2] or ())] and '::clone::Clone>::clone' in q:
                    continue            # derived Clone (the origin chase looks through clone())
                if n_ is None:
                    return None
                consts.add(n_)
            ps = st['pl'].get('p') or []
            if ps and isinstance(ps[-1], dict) and ps[-1].get('n') == fld and ps[-1].get('adt') == adt:
                return None        # the field is assigned outside a constructor literal
            if rv['k'] in ('ref', 'rawptr') and rv.get('mut', True):
                pp = rv['pl'].get('p') or []
                if pp and isinstance(pp[-1], dict) and pp[-1].get('n') == fld and pp[-1].get('adt') == adt:
                    # `&mut self.slots`: fine only as the receiver of an index / iteration that keeps the length
                    uses = [t2 for b2, t2 in QB.calls() if any(l == st['pl']['l'] for a in t2['args'] for l in QB._op_locals(a))]
                    if not uses or any((callee_of(t2)[0] or '').rsplit('::', 1)[-1] not in ('index_mut', 'iter_mut', 'get_mut', 'deref_mut', 'as_mut_slice', 'fill', 'first_mut', 'last_mut') for t2 in uses):
                        return None
        for bb, t in QB.calls():
            if t['args'] and (callee_of(t)[0] or '').rsplit('::', 1)[-1] in LEN_CHANGING and fld in root_fields(QB, t['args'][0]):
                return None
    if n_ctor >= 1 and len(consts) == 1:
        _FIELD_LEN[key] = next(iter(consts))
    return _FIELD_LEN[key]


class Ranges:
    FNS = {}      # path -> signature record, set once per run (for recognising workspace parsers)

    def __init__(self, B):
        self.B = B
        self._facts = {}
        self.B_prog_fns = Ranges.FNS

    # ---- facts from dominating conditions --------------------------------
    def facts_at(self, bb):
        """dict canon -> (lo, hi) implied by switch edges dominating bb."""
        if bb in self._facts:
            return self._facts[bb]
        self._facts[bb] = {}          # recursion guard: conditions evaluated without own facts
        facts = {}
        for (src, vals, dst) in dominating_edges(self.B, bb):
            prev_at = getattr(self.B, '_cur_at', None)
            self.B._cur_at = (src, None)
            try:
                efs = self._edge_facts(src, vals, dst)
            finally:
                self.B._cur_at = prev_at
            for c, lo, hi in efs:
                if not self._stable_after(c, dst):
                    continue
                if c in facts:
                    facts[c] = (max(facts[c][0], lo), min(facts[c][1], hi))
                else:
                    facts[c] = (lo, hi)
        self._facts[bb] = facts
        return facts

    def _stable_after(self, c, dst):
        """A fact about a re-assignable local only holds while the local is not re-assigned:
        reject when a definition of it is reachable from the guarded edge's target."""
        locs = set()
        _collect_locals(c, locs)
        if not locs:
            return True
        reach = self.B.reachable(dst)
        for l in locs:
            for d in self.B.defs().get(l, []):
                if d[1] in reach:
                    # definition inside the guarded region (loop-carried or later assignment)
                    return False
        return True

    def _edge_facts(self, src, vals, dst):
        B = self.B
        t = B.blocks[src]['t']
        out = []
        if t['dty'] == 'bool':
            sb = B.switch_bool_edges(src)
            if sb is None:
                return out
            source, t_t, f_t = sb
            if t_t == f_t:
                return out
            truth = (dst == t_t)
            out += self._bool_facts(source, truth, src)
            return out
        # integer switch on a value: `match x { 97 => .. }`
        if 'else' not in vals and len(vals) == 1 and isinstance(vals[0], int):
            c = canon(B, t['d'])
            out.append((c, vals[0], vals[0]))
        elif 'else' not in vals and vals and all(isinstance(v, int) for v in vals):
            c = canon(B, t['d'])
            out.append((c, min(vals), max(vals)))
        # `if let Ok(v) = T::try_from(x)` / `match x.try_into() { Ok(v) => .. }`: on the Ok edge x lies in T's range
        sd = B.switch_on_discr(src)
        if sd and 'core::result::Result<' in sd[1] and not sd[0].get('p'):
            d = B.single_def(sd[0]['l'])
            if d is not None and d[0] == 't':
                g, r = callee_of(d[3])
                nm = r or g or ''
                import re
                m = re.search(r'TryFrom<(\w+)> for (\w+)>::try_from$', nm) or re.search(r'TryInto<(\w+)> for (\w+)>::try_into$', nm)
                if m and d[3]['args']:
                    to = m.group(2) if 'TryFrom' in nm else m.group(1)
                    tr = ty_range(to)
                    ok_edge = ('else' not in vals and vals == [0])
                    if tr and ok_edge:
                        out.append((canon(B, d[3]['args'][0]), tr[0], tr[1]))
        # `xs.first()` / `xs.last()` / `xs.split_first()` (also behind ok_or(..)? and copies) is Some  =>  xs is not empty
        if sd and not sd[0].get('p') and 'else' not in vals and len(vals) == 1:
            ty_ = sd[1]
            ok_d = 1 if 'core::option::Option<' in ty_ else (0 if ('core::result::Result<' in ty_ or 'ControlFlow<' in ty_) else None)
            if ok_d is not None and vals[0] == ok_d:
                l_ = sd[0]['l']
                for _ in range(8):
                    d = B.single_def(l_)
                    if d is None:
                        break
                    if d[0] == 's':
                        rv_ = d[3]['rv']
                        if rv_['k'] == 'use' and rv_['op'].get('k') in ('cp', 'mv') and not rv_['op']['pl'].get('p'):
                            l_ = rv_['op']['pl']['l']
                            continue
                        break
                    g, r = callee_of(d[3])
                    nm = r or g or ''
                    a0 = d[3]['args'][0] if d[3]['args'] else None
                    if a0 is None:
                        break
                    if (g or '').endswith('Try::branch') or nm.endswith('Option::<T>::ok_or') or nm.endswith('Option::<T>::ok_or_else') or nm.endswith('Result::<T, E>::map_err') \
                            or nm.endswith('Option::<T>::copied') or nm.endswith('Option::<T>::cloned') or nm.endswith('Option::<T>::as_ref'):
                        if a0.get('k') in ('cp', 'mv') and not a0['pl'].get('p'):
                            l_ = a0['pl']['l']
                            continue
                        break
                    if nm.rsplit('::', 1)[-1] in ('first', 'last', 'split_first', 'split_last', 'first_mut', 'last_mut') and ('slice' in nm or 'Vec' in nm or 'VecDeque' in nm):
                        out.append((('len', canon(B, a0)), 1, LEN_MAX))
                    break
        # `cond.then_some(v)` / `cond.then(|| v)`: Some exactly when cond holds
        if sd and 'core::option::Option<' in sd[1] and not sd[0].get('p'):
            d = B.single_def(sd[0]['l'])
            # through plain copies (an inlined helper hands its result over by a move)
            for _ in range(4):
                if d is not None and d[0] == 's' and d[3]['rv']['k'] == 'use' and d[3]['rv']['op'].get('k') in ('cp', 'mv') and not d[3]['rv']['op']['pl'].get('p'):
                    d = B.single_def(d[3]['rv']['op']['pl']['l'])
                    continue
                break
            if d is not None and d[0] == 't':
                g, r = callee_of(d[3])
                nm = r or g or ''
                if (nm.endswith('bool>::then_some') or nm.endswith('bool>::then')) and d[3]['args'] and 'else' not in vals and len(vals) == 1:
                    src_b, neg = B.bool_source(d[3]['args'][0])
                    out += self._bool_facts(src_b, (vals[0] == 1) != neg, src)
        return out

    def _bool_facts(self, source, truth, at_bb):
        B = self.B
        out = []
        kind = source[0]
        if kind == 'bin':
            rv = source[2]
            op = rv['op']
            if op in ('BitAnd', 'BitOr'):
                # (a && b) lowered as branches normally; non-short-circuit & of bools:
                if (op == 'BitAnd' and truth) or (op == 'BitOr' and not truth):
                    for side in (rv['a'], rv['b']):
                        s2, neg = B.bool_source(side)
                        out += self._bool_facts(s2, truth != neg, at_bb)
                return out
            if op not in ('Lt', 'Le', 'Gt', 'Ge', 'Eq', 'Ne'):
                return out
            if not truth:
                op = {'Lt': 'Ge', 'Le': 'Gt', 'Gt': 'Le', 'Ge': 'Lt', 'Eq': 'Ne', 'Ne': 'Eq'}[op]
            a, b = rv['a'], rv['b']
            ca, cb = canon(B, a), canon(B, b)
            ra, rb = self.range_of(a, at_bb, use_facts=True, _depth=1), self.range_of(b, at_bb, use_facts=True, _depth=1)
            tr = ty_range(rv.get('ty', '')) or (-INF, INF)
            if op == 'Lt':
                out.append((ca, tr[0], rb[1] - 1)); out.append((cb, ra[0] + 1, tr[1]))
            elif op == 'Le':
                out.append((ca, tr[0], rb[1])); out.append((cb, ra[0], tr[1]))
            elif op == 'Gt':
                out.append((ca, rb[0] + 1, tr[1])); out.append((cb, tr[0], ra[1] - 1))
            elif op == 'Ge':
                out.append((ca, rb[0], tr[1])); out.append((cb, tr[0], ra[1]))
            elif op == 'Eq':
                out.append((ca, rb[0], rb[1])); out.append((cb, ra[0], ra[1]))
            # |x| <= c  =>  -c <= x <= c   (x.unsigned_abs() / x.abs() compared with a bound)
            for (cc, lo_, hi_) in list(out):
                if isinstance(cc, tuple) and cc and cc[0] == 'call' and str(cc[1]).rsplit('::', 1)[-1] in ('unsigned_abs', 'abs') and hi_ != INF and hi_ >= 0:
                    ct_ = B.blocks[cc[2]]['t']
                    if ct_['k'] == 'call' and ct_['args']:
                        out.append((canon(B, ct_['args'][0]), -hi_, hi_))
            if op == 'Ne':
                # only useful at range ends: x != 0 with x >= 0  =>  x >= 1
                if rb[0] == rb[1]:
                    if ra[0] == rb[0]:
                        out.append((ca, ra[0] + 1, tr[1]))
                    elif ra[1] == rb[0]:
                        out.append((ca, tr[0], ra[1] - 1))
                if ra[0] == ra[1]:
                    if rb[0] == ra[0]:
                        out.append((cb, rb[0] + 1, tr[1]))
                    elif rb[1] == ra[0]:
                        out.append((cb, tr[0], rb[1] - 1))
            return out
        if kind == 'call':
            t = source[2]
            g, r = callee_of(t)
            names = [x for x in (g, r) if x]
            if any(n in EMPTY_FNS for n in names):
                c = ('len', canon(B, t['args'][0]))
                if truth:
                    out.append((c, 0, 0))
                else:
                    out.append((c, 1, LEN_MAX))
                return out
            if any(n.endswith('RangeInclusive::<Idx>::contains') for n in names) and truth:
                ro = B.origin(t['args'][0])
                if ro[0] == 'call' and ro[1] and ro[1].endswith('RangeInclusive::<Idx>::new'):
                    nt = B.blocks[ro[2]]['t']
                    lo = self.range_of(nt['args'][0], at_bb, _depth=1)
                    hi = self.range_of(nt['args'][1], at_bb, _depth=1)
                    out.append((canon(B, t['args'][1]), lo[0], hi[1]))
                return out
            if any(n.endswith('Range::<Idx>::contains') for n in names) and truth:
                ro = B.origin(t['args'][0])
                if ro[0] == 'agg' and ro[1].get('adt', '').endswith('Range'):
                    ops = ro[1]['ops']
                    lo = self.range_of(ops[0], at_bb, _depth=1)
                    hi = self.range_of(ops[1], at_bb, _depth=1)
                    out.append((canon(B, t['args'][1]), lo[0], hi[1] - 1))
                return out
            if any(n.endswith('::is_some') or n.endswith('::is_none') or n.endswith('::is_ok') or n.endswith('::is_err')
                   for n in names):
                return out
        return out

    # ---- disequalities ------------------------------------------------------
    def ne_zero_at(self, bb):
        """canon values shown different from zero by a test every path to bb has passed (x == 0 failed, x != 0 held,
        `match x { 0 => .., _ => here }`) - the part of `x != 0` an interval cannot hold when x is signed."""
        key = ('ne0', bb)
        if key in self._facts:
            return self._facts[key]
        B = self.B
        out = set()
        self._facts[key] = out

        def from_bool(source, truth):
            if source[0] != 'bin':
                return
            rv = source[2]
            op = rv['op']
            if op in ('BitAnd', 'BitOr'):
                if (op == 'BitAnd' and truth) or (op == 'BitOr' and not truth):
                    for side in (rv['a'], rv['b']):
                        s2, neg = B.bool_source(side)
                        from_bool(s2, truth != neg)
                return
            if op not in ('Eq', 'Ne'):
                return
            if (op == 'Ne') != truth:
                return
            for x, z in ((rv['a'], rv['b']), (rv['b'], rv['a'])):
                if z['k'] == 'c' and z.get('v') == 0:
                    out.add(canon(B, x))

        for (src, vals, dst) in dominating_edges(B, bb):
            t = B.blocks[src]['t']
            before = set(out)
            if t['dty'] == 'bool':
                sb = B.switch_bool_edges(src)
                if sb is not None and sb[1] != sb[2]:
                    from_bool(sb[0], dst == sb[1])
            elif 'else' in vals and 0 not in vals and any(v == 0 for v, _ in t['cases']):
                out.add(canon(B, t['d']))
            for c in out - before:
                if not self._stable_after(c, dst):
                    out.discard(c)
        return out

    def nonzero(self, op, bb, _c=None, _depth=0):
        """True when the value is shown to differ from zero at bb."""
        B = self.B
        c = _c if _c is not None else canon(B, op)
        if _c is None:
            r = self.range_of(op, bb)
            if r[0] > 0 or r[1] < 0:
                return True
        if c in self.ne_zero_at(bb):
            return True
        if _depth < 6 and isinstance(c, tuple) and c and c[0] == 'call' and str(c[1]).rsplit('::', 1)[-1] in ('unsigned_abs', 'abs', 'wrapping_abs'):
            ct = B.blocks[c[2]]['t']
            if ct['k'] == 'call' and ct['args']:
                return self.nonzero(ct['args'][0], bb, _depth=_depth + 1)
        if _depth < 6 and isinstance(c, tuple) and c and c[0] == 'un' and c[1] == 'Neg':
            return self.nonzero(None, bb, _c=c[2], _depth=_depth + 1)
        return False

    # ---- value ranges ------------------------------------------------------
    def range_of(self, op, bb, use_facts=True, _depth=0):
        B = self.B
        if bb is not None and _depth == 0 and getattr(B, '_cur_at', None) is None:
            B._cur_at = (bb, None)
            try:
                return self.range_of(op, bb, use_facts, _depth)
            finally:
                B._cur_at = None
        if op['k'] == 'c':
            if 'v' in op:
                return (op['v'], op['v'])
            return ty_range(op.get('ty', '')) or (-INF, INF)
        c = canon(B, op)
        # type of the operand
        tr = None
        if op['k'] in ('cp', 'mv'):
            tr = self._place_ty_range(op['pl'])
        rng = self._range_canon(c, bb, tr, use_facts, _depth)
        return rng

    def _place_ty_range(self, pl):
        ps = pl.get('p') or []
        ty = None
        for e in reversed(ps):
            if isinstance(e, dict) and 'ty' in e:
                ty = e['ty']
                break
            if e == '*':
                continue
            break
        if ty is None and all(e == '*' for e in ps):
            ty = self.B.local_ty(pl['l'])
        return ty_range(ty) if ty else None

    def _range_canon(self, c, bb, tr, use_facts, depth):
        lo, hi = tr if tr else (-INF, INF)
        if depth > 12:
            return (lo, hi)
        k = c[0]
        if k == 'const':
            if isinstance(c[1], int):
                return (c[1], c[1])
        elif k == 'len':
            lo, hi = max(lo, 0), min(hi, LEN_MAX)
            n_ = _fixed_field_len(self.B, c[1])
            if n_ is not None:
                lo, hi = max(lo, n_), min(hi, n_)
        elif k == 'remaining':
            lo, hi = max(lo, 0), min(hi, LEN_MAX)
        elif k == 'call':
            t = self.B.blocks[c[2]]['t']
            r0 = ty_range(self.B.local_ty(t['dst']['l'])) if not t['dst'].get('p') else None
            if r0:
                lo, hi = max(lo, r0[0]), min(hi, r0[1])
            nm_ = str(c[1])
            if nm_.startswith('core::num::') and nm_.rsplit('::', 1)[-1] in ('unsigned_abs', 'abs') and t['args']:
                a = self.range_of(t['args'][0], c[2], use_facts, depth + 1)
                if a[0] >= 0:
                    r = (a[0], a[1])
                elif a[1] <= 0:
                    r = (-a[1], -a[0])
                else:
                    r = (0, max(-a[0], a[1]))
                if nm_.endswith('unsigned_abs') or r[1] <= hi:
                    lo, hi = max(lo, r[0]), min(hi, r[1])
        elif k in ('arg', 'local'):
            r0 = ty_range(self.B.local_ty(c[1]))
            if r0:
                lo, hi = max(lo, r0[0]), min(hi, r0[1])
            if k == 'local':
                # `let x = if c { 0 } else { 4 }`: every definition is a constant
                vals = []
                for d in self.B.defs().get(c[1], []):
                    if d[0] == 's' and d[3]['rv']['k'] == 'use' and d[3]['rv']['op']['k'] == 'c' and 'v' in d[3]['rv']['op']:
                        vals.append(d[3]['rv']['op']['v'])
                    else:
                        vals = None
                        break
                if vals:
                    lo, hi = max(lo, min(vals)), min(hi, max(vals))
        elif k == 'place':
            r0 = ty_range(getattr(self.B, '_cty', {}).get(c, ''))
            if r0:
                lo, hi = max(lo, r0[0]), min(hi, r0[1])
        elif k == 'cast':
            inner = self._range_canon(c[2], bb, None, use_facts, depth + 1)
            to = ty_range(c[1])
            if to and inner[0] >= to[0] and inner[1] <= to[1]:
                lo, hi = max(lo, inner[0]), min(hi, inner[1])
            elif to:
                lo, hi = max(lo, to[0]), min(hi, to[1])
        elif k == 'un' and c[1] == 'Neg':
            a = self._range_canon(c[2], bb, None, use_facts, depth + 1)
            r = (-a[1], -a[0])
            if tr is None or (r[0] >= tr[0] and r[1] <= tr[1]):
                lo, hi = max(lo, r[0]), min(hi, r[1])
        elif k == 'min':
            a = self._range_canon(c[1], bb, None, use_facts, depth + 1)
            b = self._range_canon(c[2], bb, None, use_facts, depth + 1)
            lo, hi = max(lo, min(a[0], b[0])), min(hi, min(a[1], b[1]))
        elif k == 'max':
            a = self._range_canon(c[1], bb, None, use_facts, depth + 1)
            b = self._range_canon(c[2], bb, None, use_facts, depth + 1)
            lo, hi = max(lo, max(a[0], b[0])), min(hi, max(a[1], b[1]))
        elif k == 'bin':
            a = self._range_canon(c[2], bb, None, use_facts, depth + 1)
            b = self._range_canon(c[3], bb, None, use_facts, depth + 1)
            op = c[1].replace('Unchecked', '')
            r = None
            if op == 'Add':
                r = (a[0] + b[0], a[1] + b[1])
            elif op == 'Sub':
                r = (a[0] - b[1], a[1] - b[0])
                if r[0] < 0 and depth < 4 and bb is not None and self.prove_le(c[3], c[2], bb, False, 6):
                    r = (0, r[1])
            elif op == 'Mul' and a[0] >= 0 and b[0] >= 0:
                r = (a[0] * b[0], a[1] * b[1])
            elif op == 'Div' and a[0] >= 0 and b[0] > 0:
                r = (a[0] // b[1] if b[1] != INF else 0, a[1] // b[0] if a[1] != INF else INF)
            elif op == 'Rem' and b[0] > 0 and a[0] >= 0:
                r = (0, min(a[1], b[1] - 1))
            elif op == 'BitAnd' and a[0] >= 0 and b[0] >= 0:
                r = (0, min(a[1], b[1]))
            elif op == 'Shr' and a[0] >= 0 and b[0] == b[1] and b[0] != INF:
                r = (int(a[0]) >> int(b[0]) if a[0] != INF else 0, (int(a[1]) >> int(b[0])) if a[1] != INF else INF)
            elif op in ('Lt', 'Le', 'Gt', 'Ge', 'Eq', 'Ne'):
                r = (0, 1)
            if r is not None:
                # checked arithmetic in debug, wrapping in release: only keep the
                # arithmetic range when it stays inside the type (no wrap)
                if tr is None or (r[0] >= tr[0] and r[1] <= tr[1]):
                    lo, hi = max(lo, r[0]), min(hi, r[1])
        if k == 'place':
            lv = self.loop_var_bounds(c)
            if lv is not None and depth < 6:
                a = self._range_canon(lv[0], bb, None, use_facts, depth + 1)
                b = self._range_canon(lv[1], bb, None, use_facts, depth + 1)
                lo, hi = max(lo, a[0]), min(hi, b[1] - 1)
            ei = self.enumerate_index_bound(c)
            if ei is not None and depth < 6:
                lo = max(lo, 0)
                if isinstance(ei, tuple) and ei and ei[0] == 'lenof':
                    b = self._range_canon(('len', ei[1]), bb, None, use_facts, depth + 1)
                    hi = min(hi, b[1] - 1, LEN_MAX - 1)
                elif ei != 'len':
                    b = self.range_of(ei, bb, use_facts, depth + 1)
                    hi = min(hi, b[1] - 1)
                else:
                    hi = min(hi, LEN_MAX - 1)
            # the index a closure receives from `xs.iter().enumerate().map(|(i, x)| ..)`: below the length of xs as known where the closure is used
            if c == ('place', ('arg', 2), ('0',)) and self.B.b.get('kind') == 'Closure' and getattr(self.B, 'PROGRAM', None) is not None and depth < 4:
                pb = self._closure_index_bound()
                if pb is not None:
                    lo, hi = max(lo, 0), min(hi, pb)
        if k == 'len':
            al = self.len_alias(c)
            if al is not None and depth < 6:
                a = self._range_canon(al, bb, None, use_facts, depth + 1)
                lo, hi = max(lo, a[0]), min(hi, a[1])
        if use_facts and bb is not None:
            f = self.facts_at(bb).get(c)
            if f:
                lo, hi = max(lo, f[0]), min(hi, f[1])
        return (lo, hi)

    # ---- relational facts (a < b, a <= b between two symbolic values) ----------
    def rels_at(self, bb):
        if not hasattr(self, '_rels'):
            self._rels = {}
        if bb in self._rels:
            return self._rels[bb]
        B = self.B
        out = set()
        for (src, vals, dst) in dominating_edges(B, bb):
            t = B.blocks[src]['t']
            if t['dty'] != 'bool':
                # `cond.then_some(v)`: on the Some edge of a match on its result, cond held
                ts = self._then_some_source(src, vals)
                if ts is None:
                    continue
                source, truth = ts
                if source[0] != 'bin':
                    continue
            else:
                sb = B.switch_bool_edges(src)
                if sb is None:
                    continue
                source, t_t, f_t = sb
                if t_t == f_t or source[0] != 'bin':
                    continue
                truth = (dst == t_t)
            rv = source[2]
            op = rv['op']
            if op not in ('Lt', 'Le', 'Gt', 'Ge', 'Eq'):
                continue
            if not truth:
                if op == 'Eq':
                    continue
                op = {'Lt': 'Ge', 'Le': 'Gt', 'Gt': 'Le', 'Ge': 'Lt'}[op]
            ca, cb = canon(B, rv['a']), canon(B, rv['b'])
            if not (self._stable_after(ca, dst) and self._stable_after(cb, dst)):
                continue
            if op == 'Lt':
                out.add((ca, '<', cb))
            elif op == 'Le':
                out.add((ca, '<=', cb))
            elif op == 'Gt':
                out.add((cb, '<', ca))
            elif op == 'Ge':
                out.add((cb, '<=', ca))
            elif op == 'Eq':
                out.add((ca, '<=', cb))
                out.add((cb, '<=', ca))
        self._rels[bb] = out
        return out

    def _then_some_source(self, src, vals):
        """(bool source, truth) when block src switches on the discriminant of `cond.then_some(v)` / `cond.then(..)`"""
        B = self.B
        sd = B.switch_on_discr(src)
        if not (sd and 'core::option::Option<' in sd[1] and not sd[0].get('p')) or 'else' in vals or len(vals) != 1:
            return None
        d = B.single_def(sd[0]['l'])
        for _ in range(4):
            if d is not None and d[0] == 's' and d[3]['rv']['k'] == 'use' and d[3]['rv']['op'].get('k') in ('cp', 'mv') and not d[3]['rv']['op']['pl'].get('p'):
                d = B.single_def(d[3]['rv']['op']['pl']['l'])
                continue
            break
        if d is None or d[0] != 't':
            return None
        g, r = callee_of(d[3])
        nm = r or g or ''
        if not (nm.endswith('bool>::then_some') or nm.endswith('bool>::then')) or not d[3]['args']:
            return None
        src_b, neg = B.bool_source(d[3]['args'][0])
        return src_b, (vals[0] == 1) != neg

    # ---- knowledge about parser combinators ---------------------------------------
    def _call_of_payload(self, c):
        """for c = ('place', ('payload', ('call', name, bb)), (field,)) -> (call terminator, field)"""
        if c[0] == 'place' and c[1][0] == 'payload' and c[1][1][0] == 'call' and len(c[2]) == 1:
            return self.B.blocks[c[1][1][2]]['t'], c[2][0]
        return None, None

    def len_alias(self, c):
        """len(x) where x is the slice produced by nom `take(n)(input)?` equals n."""
        if c[0] != 'len':
            return None
        if c[1][0] == 'call' and str(c[1][1]).endswith('Iterator::collect'):
            # xs.iter().copied().collect(): as many elements as xs has (no adaptor that drops or adds any)
            ct = self.B.blocks[c[1][2]]['t']
            # only into a Vec: a set or a map may drop duplicates
            dst_ty = self.B.local_ty(ct['dst']['l']) if not ct['dst'].get('p') else ''
            src = self._iter_source(ct['args'][0]) if ct.get('args') and dst_ty.startswith('alloc::vec::Vec<') else None
            if src is not None:
                return ('len', src)
            return None
        t, fld = self._call_of_payload(c[1])
        if t is None or fld != '1':
            return None
        g, r = callee_of(t)
        if g in ('core::ops::function::FnMut::call_mut', 'core::ops::function::FnOnce::call_once', 'nom::internal::Parser::parse') and t['args']:
            o = self.B.origin(t['args'][0])
            if o[0] == 'call' and o[1] and o[1].startswith('nom::bytes::complete::take'):
                return canon(self.B, self.B.blocks[o[2]]['t']['args'][0])
        return None

    def _iter_source(self, op):
        """canon of the collection an iterator expression walks once, element by element (iter / into_iter, then only adaptors
        that keep the number of elements: copied, cloned, map, enumerate, rev, by_ref); None otherwise"""
        cur = op
        for _ in range(8):
            o = self.B.origin(cur)
            if o[0] != 'call' or not o[1]:
                return None
            ct = self.B.blocks[o[2]]['t']
            nm = o[1].rsplit('::', 1)[-1]
            if not ct.get('args'):
                return None
            if nm in ('iter', 'into_iter', 'iter_mut', 'keys', 'values') and not any(x in o[1] for x in ('Iterator::', 'adapters::', 'IntoIterator')):
                return canon(self.B, ct['args'][0])
            if nm == 'into_iter' and 'IntoIterator' in o[1]:
                # `for x in it`: into_iter of something that already is an iterator, or of a collection
                inner = self.B.origin(ct['args'][0])
                if inner[0] == 'call' and inner[1] and ('Iterator::' in inner[1] or inner[1].rsplit('::', 1)[-1] in ('iter', 'iter_mut')):
                    cur = ct['args'][0]
                    continue
                return canon(self.B, ct['args'][0])
            if nm in ('copied', 'cloned', 'map', 'enumerate', 'rev', 'by_ref', 'inspect', 'peekable'):
                cur = ct['args'][0]
                continue
            return None
        return None

    def suffix_parent(self, c):
        """x = the remaining-input component (.0) of a successful parser call p(input, ..)?  ->  canon(input):
        parsers only consume from the front, so len(x) <= len(input)."""
        t, fld = self._call_of_payload(c)
        if t is None or fld != '0' or not t['args']:
            return None
        g, r = callee_of(t)
        names = [n for n in (g, r) if n]
        is_parser = any(n.startswith('nom::number::complete::') or n.startswith('nom::bytes::complete::') for n in names)
        if not is_parser and g in ('core::ops::function::FnMut::call_mut', 'nom::internal::Parser::parse'):
            # combinator object applied to (input,)
            if len(t['args']) > 1:
                ao = self.B.origin(t['args'][1])
                if ao[0] == 'agg' and ao[1]['ak'] == 'tuple' and ao[1]['ops']:
                    return canon(self.B, ao[1]['ops'][0])
            return None
        if not is_parser:
            for n in names:
                sig = None
                try:
                    sig = self.B_prog_fns.get(n)
                except AttributeError:
                    sig = None
                if sig:
                    import re
                    out_ty = re.sub(r"'[a-z_]+ ", '', sig['output'])
                    in0 = re.sub(r"'[a-z_]+ ", '', sig['inputs'][0]) if sig['inputs'] else ''
                    if out_ty.startswith('core::result::Result<(&[u8], ') and in0 == '&[u8]':
                        is_parser = True
        if is_parser:
            return canon(self.B, t['args'][0])
        return None

    def prove_le(self, ca, cb, bb, strict=False, depth=0):
        """Is ca <= cb (ca < cb when strict) established at bb?"""
        if depth > 8:
            return False
        a2 = self.len_alias(ca)
        if a2 is not None:
            ca = a2
        b2 = self.len_alias(cb)
        if b2 is not None:
            cb = b2
        # len(suffix) <= len(parent) <= ...
        if ca[0] == 'len' and not strict:
            par = self.suffix_parent(ca[1])
            if par is not None and self.prove_le(('len', par), cb, bb, False, depth + 1):
                return True
        # b = y + k (k >= 1):  a < b  <=  a <= y ;   a <= b  <=  a <= y
        if cb[0] == 'bin' and cb[1] in ('Add', 'AddUnchecked'):
            for y, kc in ((cb[2], cb[3]), (cb[3], cb[2])):
                kr = self._range_canon(kc, bb, None, True, 0)
                if kr[0] >= 1 and self.prove_le(ca, y, bb, False, depth + 1):
                    return True
                if kr[0] >= 0 and self.prove_le(ca, y, bb, strict, depth + 1):
                    return True
        # monotonic division: p / k <= q / k  <=  p <= q
        if ca[0] == 'bin' and cb[0] == 'bin' and ca[1] == 'Div' and cb[1] == 'Div' and ca[3] == cb[3] and not strict:
            kr = self._range_canon(ca[3], bb, None, True, 0)
            if kr[0] >= 1 and self.prove_le(ca[2], cb[2], bb, False, depth + 1):
                return True
        # a variable assigned in several branches (`let x = if c { n } else { 0 }`): every assigned value must satisfy the bound
        if ca[0] == 'local':
            defs = self.B.defs().get(ca[1], [])
            if len(defs) >= 2 and all(d[0] == 's' and d[3]['rv']['k'] in ('use', 'cast') for d in defs):
                if all(self.prove_le(canon(self.B, d[3]['rv']['op']), cb, bb, strict, depth + 1) for d in defs):
                    return True
        # loop variable of `for i in a..b`: a <= i < b
        lv = self.loop_var_bounds(ca)
        if lv is not None:
            if self.prove_le(lv[1], cb, bb, False, depth + 1):
                return True
        ra = self._range_canon(ca, bb, None, True, 0)
        rb = self._range_canon(cb, bb, None, True, 0)
        if strict and ra[1] < rb[0]:
            return True
        if not strict and ra[1] <= rb[0]:
            return True
        if not strict and ca == cb:
            return True
        rels = self.rels_at(bb)
        if (ca, '<', cb) in rels:
            return True
        if not strict and (ca, '<=', cb) in rels:
            return True
        # min(x, y) <= x, <= y
        if ca[0] == 'min':
            for side in (ca[1], ca[2]):
                if self.prove_le(side, cb, bb, strict, depth + 1):
                    return True
        # x - k < b  when  x <= b, k >= 1 (and no underflow: x >= k)
        if ca[0] == 'bin' and ca[1] in ('Sub', 'SubUnchecked'):
            k = self._range_canon(ca[3], bb, None, True, 0)
            x = self._range_canon(ca[2], bb, None, True, 0)
            if k[0] >= 1 and x[0] >= k[1]:
                if self.prove_le(ca[2], cb, bb, False, depth + 1):
                    return True
            if k[0] >= 0 and x[0] >= k[1] and self.prove_le(ca[2], cb, bb, strict, depth + 1):
                return True
            # ... the same with "no underflow" known relationally (k <= x: a suffix's length taken off its parent's)
            if k[0] >= 0 and not strict and self.prove_le(ca[2], cb, bb, False, depth + 1) and self.prove_le(ca[3], ca[2], bb, False, depth + 1):
                return True
        # x / k <= x <= b
        if ca[0] == 'bin' and ca[1] == 'Div':
            k = self._range_canon(ca[3], bb, None, True, 0)
            if k[0] >= 1 and self.prove_le(ca[2], cb, bb, strict, depth + 1):
                return True
        # transitivity through one recorded relation
        for (x, op, y) in rels:
            if x == ca and y != cb:
                st2 = strict and op != '<'
                if self.prove_le(y, cb, bb, st2, depth + 1):
                    return True
        # widening casts are transparent in canon; narrowing cast of a value that fits keeps the value
        if ca[0] == 'cast':
            inner = self._range_canon(ca[2], bb, None, True, 0)
            to = ty_range(ca[1])
            if to and inner[0] >= to[0] and inner[1] <= to[1]:
                return self.prove_le(ca[2], cb, bb, strict, depth + 1)
        if cb[0] == 'cast':
            inner = self._range_canon(cb[2], bb, None, True, 0)
            to = ty_range(cb[1])
            if to and inner[0] >= to[0] and inner[1] <= to[1]:
                return self.prove_le(ca, cb[2], bb, strict, depth + 1)
        return False

    def loop_var_bounds(self, c):
        """c = Some-payload of Iterator::next on a Range {start, end}  ->  (canon(start), canon(end))  (start <= c < end)"""
        if c[0] != 'place' or c[1][0] != 'call' or tuple(c[2]) != ('as:Some', '0'):
            return None
        t = self.B.blocks[c[1][2]]['t']
        g, r = callee_of(t)
        if g != 'core::iter::traits::iterator::Iterator::next' or not t['args']:
            return None
        o = self.B.origin(t['args'][0])
        # iter local <- IntoIterator::into_iter(Range{start,end})
        for _ in range(4):
            if o[0] == 'call' and o[1] and o[1].endswith('into_iter'):
                o = self.B.origin(self.B.blocks[o[2]]['t']['args'][0])
                continue
            break
        if o[0] == 'agg' and o[1].get('adt', '').endswith('ops::range::Range') and len(o[1]['ops']) == 2:
            return canon(self.B, o[1]['ops'][0]), canon(self.B, o[1]['ops'][1])
        return None

    def _closure_index_bound(self):
        """largest index the closure of this body can receive as `.0` of its argument when it is handed to an adaptor of an
        `enumerate()` chain in the function that creates it; None when that is not the (only) use"""
        if hasattr(self, '_cib'):
            return self._cib
        self._cib = None
        P = self.B.PROGRAM
        me = self.B.path
        parent = me.rsplit('::{closure', 1)[0]
        best = None
        for q in list(P.F.bodies):
            if q != parent and not q.startswith(parent + '::{'):
                continue
            if q == me:
                continue
            PB = P.B(q)
            for bb, t in PB.calls():
                if len(t['args']) < 2:
                    continue
                o = PB.origin(t['args'][1])
                if not (o[0] == 'agg' and o[1].get('ak') == 'closure' and o[1].get('def') == me):
                    continue
                nm = (callee_of(t)[0] or '').rsplit('::', 1)[-1]
                if nm not in ('map', 'for_each', 'filter_map', 'all', 'any', 'find_map', 'flat_map', 'filter', 'position', 'try_for_each'):
                    return None
                RP = Ranges(PB)
                src = None
                oe = PB.origin(t['args'][0])
                if oe[0] == 'call' and oe[1] and oe[1].endswith('::enumerate'):
                    src = RP._iter_source(PB.blocks[oe[2]]['t']['args'][0])
                if src is None:
                    return None
                r = RP._range_canon(('len', src), bb, None, True, 0)
                hi = r[1] - 1
                best = hi if best is None else max(best, hi)
        self._cib = best
        return best

    def enumerate_index_bound(self, c):
        """c = the index component of an item yielded by `.enumerate()` (Some-payload .0 of Iterator::next):
        the operand n of a `.take(n)` in the same adaptor chain (index < n), or 'len' when there is none (index < length)."""
        if c[0] != 'place' or c[1][0] != 'call' or tuple(c[2]) != ('as:Some', '0', '0'):
            return None
        t = self.B.blocks[c[1][2]]['t']
        if t['k'] != 'call' or not t['args'] or not any(n.endswith('::next') for n in callee_names(t)):
            return None
        cur = t['args'][0]
        seen_enum, take_n, skipped = False, None, False
        for _ in range(8):
            o = self.B.origin(cur)
            if o[0] != 'call' or not o[1]:
                break
            ct = self.B.blocks[o[2]]['t']
            nm = o[1].rsplit('::', 1)[-1]
            if nm == 'enumerate':
                seen_enum = True
            elif nm == 'take' and len(ct['args']) > 1:
                take_n = ct['args'][1]
            elif nm in ('skip', 'rev', 'step_by', 'chain'):
                skipped = True        # the index no longer starts at 0 / is no longer below the take() count
            elif nm not in ('into_iter', 'iter', 'by_ref', 'copied', 'cloned', 'peekable', 'deref', 'iter_mut'):
                break
            if nm in ('iter', 'iter_mut', 'deref') or not ct['args']:
                break
            cur = ct['args'][0]
        if not seen_enum:
            return None
        if take_n is None and not skipped:
            src = self._iter_source(t['args'][0])
            if src is not None:
                return ('lenof', src)
        return take_n if (take_n is not None and not skipped) else 'len'

    def infeasible(self, bb):
        """True when the dominating conditions of bb are contradictory (some value has an empty range)."""
        for c, (lo, hi) in self.facts_at(bb).items():
            tr = None
            r = self._range_canon(c, None, None, False, 0)
            if max(lo, r[0]) > min(hi, r[1]):
                return True
        return False

    def uninterpreted_mentions(self, bb, c):
        """Is there a dominating condition that mentions c but is of a form this analysis does not
        interpret (an opaque predicate call, a bit test, ...)?  Only then is a failed proof 'undecided'."""
        B = self.B
        for (src, vals, dst) in dominating_edges(B, bb):
            t = B.blocks[src]['t']
            if t['dty'] == 'bool':
                source, neg = B.bool_source(t['d'])
                if not self._mentions_source(source, c, 0):
                    continue
                if source[0] == 'bin' and source[2]['op'] in ('Lt', 'Le', 'Gt', 'Ge', 'Eq', 'Ne'):
                    continue
                if source[0] == 'call':
                    nm = callee_of(source[2])[0] or ''
                    if nm in EMPTY_FNS or nm.endswith('RangeInclusive::<Idx>::contains') or nm.endswith('Range::<Idx>::contains'):
                        continue
                return True
            else:
                if _contains(canon(B, t['d']), c):
                    sd = B.switch_on_discr(src)
                    if sd is None:
                        continue      # integer match on the value: interpreted
                    return True
        return False

    def mentions(self, bb, c):
        """Does any dominating switch condition mention canonical value c?  Used to
        separate 'no guard at all' (violation) from 'guard not understood' (undecided)."""
        B = self.B
        for (src, vals, dst) in dominating_edges(B, bb):
            t = B.blocks[src]['t']
            if t['dty'] == 'bool':
                source, neg = B.bool_source(t['d'])
                if self._mentions_source(source, c, 0):
                    return True
            else:
                if _contains(canon(B, t['d']), c):
                    return True
        return False

    def _mentions_source(self, source, c, depth):
        B = self.B
        if depth > 4:
            return False
        if source[0] == 'bin':
            rv = source[2]
            for side in (rv['a'], rv['b']):
                if _contains(canon(B, side), c):
                    return True
                if rv['op'] in ('BitAnd', 'BitOr'):
                    s2, _ = B.bool_source(side)
                    if self._mentions_source(s2, c, depth + 1):
                        return True
        elif source[0] == 'call':
            for a in source[2]['args']:
                if _contains(canon(B, a), c):
                    return True
        return False


def _collect_locals(tree, out):
    if isinstance(tree, tuple):
        if len(tree) >= 2 and tree[0] == 'local' and isinstance(tree[1], int):
            out.add(tree[1])
        for x in tree:
            if isinstance(x, tuple):
                _collect_locals(x, out)


def _contains(tree, c):
    if tree == c:
        return True
    if isinstance(tree, tuple):
        return any(_contains(x, c) for x in tree if isinstance(x, tuple))
    return False
