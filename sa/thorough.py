"""Thorough tier: (1) the property's rules re-evaluated on the other feature configuration of
erltf / erltf_serde (no elixir-interop), (2) every canary mutant of the property applied to a
scratch copy of /repo (outside /repo and /verif) must be reported by the named rule,
(3) every kept seeded change under /verif/seeded/ for the property likewise."""
import os, sys, glob, json, subprocess, shutil, tempfile, hashlib, fcntl, importlib

from . import extract
from .facts import Facts
from .core import Program

VERIF = extract.VERIF
ALT_PROPS = ('C01', 'C02', 'C03', 'C10', 'C11', 'C12', 'C13', 'C15')


def alt_facts():
    """facts of erltf + erltf_serde built alone (default features: no elixir-interop)"""
    cache = os.path.join(VERIF, '.cache')
    lock = open(os.path.join(cache, 'lock.alt'), 'w')
    fcntl.flock(lock, fcntl.LOCK_EX)
    try:
        facts_dir = os.path.join(cache, 'facts-alt')
        stamp = os.path.join(cache, 'facts-alt.stamp')
        h, _ = extract.source_hash(os.environ.get('VERIF_REPO', '/repo'))
        want = h + ':' + hashlib.sha256(open(extract.DRIVER, 'rb').read()).hexdigest()
        have = open(stamp).read().strip() if os.path.exists(stamp) else ''
        if have != want or not glob.glob(os.path.join(facts_dir, 'erltf_serde.*.json')):
            if os.path.exists(stamp):
                os.unlink(stamp)
            rc, out = extract.run_driver(os.environ.get('VERIF_REPO', '/repo'), facts_dir, os.path.join(cache, 'target-alt'), packages=['erltf_serde'])
            if rc != 0 or not glob.glob(os.path.join(facts_dir, 'erltf_serde.*.json')):
                raise RuntimeError('alt-config extraction failed\n' + out[-1500:])
            open(stamp, 'w').write(want)
        return facts_dir
    finally:
        fcntl.flock(lock, fcntl.LOCK_UN)
        lock.close()


def run(ctx, mod, CtxClass):
    pid = ctx.pid
    # ---- (1) alternative feature configuration -------------------------------------------------
    if pid in ALT_PROPS and not os.environ.get('VERIF_REPO'):
        try:
            fd = alt_facts()
            F2 = Facts(fd)
            c2 = CtxClass(pid, 'thorough', F2, ctx.info)
            c2.FX, c2.PX = ctx.FX, ctx.PX
            from .ranges import Ranges
            saved = Ranges.FNS
            Ranges.FNS = F2.fns
            try:
                mod.run(c2)
            finally:
                Ranges.FNS = saved
            n = 0
            for r in c2.records:
                # anchors that live in crates outside this configuration are not obligations here
                if r['rule'] == 'ANCHOR' and not any(x in r['instance'] for x in ('erltf::', 'erltf_serde')):
                    continue
                if r['rule'] in ('ANCHOR',) and ('edp_' in r['instance']):
                    continue
                r = dict(r)
                r['rule'] = r['rule'] + '@no-elixir-interop'
                r['instance'] = r['instance']
                ctx.records.append(r)
                ctx.rules.setdefault(r['rule'], {'desc': 'same rule on erltf/erltf_serde built without the elixir-interop feature', 'floor': None, 'count': 0})
                ctx.rules[r['rule']]['count'] += 1
                n += 1
            ctx.info_note('alternative configuration (erltf_serde default features): %d obligations re-evaluated' % n)
        except Exception as e:
            ctx.info_note('alternative configuration not analysed: %s' % str(e)[:300])

    # ---- (2) canaries, (3) seeded changes ---------------------------------------------------------
    if os.environ.get('VERIF_REPO'):
        return      # we are already inside a scratch run
    sys.path.insert(0, VERIF)
    from tools import canary as ctool
    from canaries.table import CANARIES
    ctx.rule('CANARY', 'each mutant of /repo (compiles, passes the existing suite, breaks the property) is reported by this check when applied to a scratch copy', floor=None)
    mine = [c for c in CANARIES if c['property'] == pid]
    for c in mine:
        try:
            ok, out = ctool.run_canary(c, verbose=False)
        except SystemExit as e:
            ctx.undecided('CANARY', c['id'], 'anchor text of the mutant no longer found in the tree: %s' % str(e)[:120])
            continue
        if 'fact extraction failed' in out:
            ctx.undecided('CANARY', c['id'], 'mutant no longer compiles on this tree')
        elif ok:
            ctx.ok('CANARY', c['id'], 'behaviour-preserving refactoring: check stayed silent' if c.get('benign') else 'reported')
        elif c.get('benign'):
            ctx.bad('CANARY', c['id'], 'the check raised an alarm on a behaviour-preserving refactoring (false alarm)', key='ENGINE:benign-alarm:%s' % c['id'])
        else:
            ctx.bad('CANARY', c['id'], 'mutant was NOT reported: the rule that is supposed to catch it has weakened', key='ENGINE:canary-missed:%s' % c['id'])
    ctx.rule('SEEDED', 'each kept seeded change (independent sub-agent mutants, /verif/seeded) for this property is reported when applied to a scratch copy', floor=None)
    for d in sorted(glob.glob(os.path.join(VERIF, 'seeded', '*'))):
        mp = os.path.join(d, 'meta.json')
        if not os.path.exists(mp):
            continue
        meta = json.load(open(mp))
        if meta.get('property') != pid or not meta.get('caught_by'):
            continue
        sd = ctool.scratch_copy()
        try:
            r = subprocess.run(['git', 'apply', '--unsafe-paths', '--directory', sd + '/repo', os.path.join(d, 'patch.diff')], cwd='/', capture_output=True, text=True)
            if r.returncode != 0:
                r = subprocess.run(['patch', '-p1', '-s', '-d', sd + '/repo', '-i', os.path.join(d, 'patch.diff')], capture_output=True, text=True)
            if r.returncode != 0:
                ctx.undecided('SEEDED', os.path.basename(d), 'patch no longer applies')
                continue
            rc, out = ctool.run_check(sd, pid)
            fired = [l for l in out.splitlines() if l.startswith('VIOLATION')]
            if fired:
                ctx.ok('SEEDED', os.path.basename(d), 'reported: %s' % fired[0].split('#', 1)[-1][:120])
            else:
                ctx.bad('SEEDED', os.path.basename(d), 'seeded change was NOT reported', key='ENGINE:seeded-missed:%s' % os.path.basename(d))
        finally:
            shutil.rmtree(sd, ignore_errors=True)
    # ---- (4) behaviour-preserving refactorings written by independent sub-agents (benign/b1): the check must stay silent ---------
    ctx.rule('REFACTORING', 'each kept behaviour-preserving refactoring of the code this property depends on (benign/b1, benign/b2, benign/b3 /%s-*, written by independent sub-agents, and benign/own: hand-written twins of seeded faults) leaves this check silent '
             'when applied to a scratch copy; the refactorings known to raise a false alarm (DESIGN.md 10.6, benign/*/KNOWN_NOT_SILENT.txt) are not run' % pid, floor=None)
    skip = set()
    for kp in glob.glob(os.path.join(VERIF, 'benign', '*', 'KNOWN_NOT_SILENT.txt')):
        rnd = os.path.basename(os.path.dirname(kp))
        skip |= {rnd + '/' + l.split()[0] for l in open(kp) if l.strip() and not l.startswith('#')}
    for d in sorted(glob.glob(os.path.join(VERIF, 'benign', '*', pid + '-*'))):
        bid = os.path.basename(os.path.dirname(d)) + '/' + os.path.basename(d)
        if bid in skip:
            continue
        sd = ctool.scratch_copy()
        try:
            r = subprocess.run(['patch', '-p1', '-s', '-d', sd + '/repo', '-i', os.path.join(d, 'patch.diff')], capture_output=True, text=True)
            if r.returncode != 0:
                ctx.undecided('REFACTORING', bid, 'patch no longer applies')
                continue
            rc, out = ctool.run_check(sd, pid)
            fired = [l for l in out.splitlines() if l.startswith('VIOLATION')]
            if 'fact extraction failed' in out:
                ctx.undecided('REFACTORING', bid, 'refactored tree no longer compiles')
            elif fired:
                ctx.bad('REFACTORING', bid, 'the check raised an alarm on a behaviour-preserving refactoring (false alarm): %s' % fired[0].split('#', 1)[-1][:120], key='ENGINE:benign-alarm:b1:%s' % bid)
            else:
                ctx.ok('REFACTORING', bid, 'check stayed silent')
        finally:
            shutil.rmtree(sd, ignore_errors=True)
