"""Rule families shared by the property modules (CAST, PANIC, ALLOC, ...)."""
import re
from .core import callee_of, callee_names, is_call_to, fold, receiver_root, dominating_edges
from .ranges import Ranges, canon, ty_range, INT, INF, LEN_MAX

F64_EXACT = (-(2**53), 2**53)
F32_EXACT = (-(2**24), 2**24)


def describe(B, c):
    """Readable, line-number-free description of a canonical value."""
    k = c[0]
    if k == 'const':
        return str(c[1])
    if k == 'arg':
        return B.local_name(c[1]) or 'arg%d' % c[1]
    if k == 'local':
        return B.local_name(c[1]) or 'tmp'
    if k == 'place':
        return describe(B, c[1]) + ''.join(
            '.' + (p if isinstance(p, str) else '[' + (describe(B, p[1]) if p[0] == 'idx' else str(p[1])) + ']')
            for p in c[2])
    if k == 'len':
        return 'len(%s)' % describe(B, c[1])
    if k == 'remaining':
        return 'remaining(%s)' % describe(B, c[1])
    if k == 'cast':
        return '(%s as %s)' % (describe(B, c[2]), c[1])
    if k == 'bin':
        return '%s(%s,%s)' % (c[1], describe(B, c[2]), describe(B, c[3]))
    if k == 'un':
        return '%s(%s)' % (c[1], describe(B, c[2]))
    if k in ('min', 'max'):
        return '%s(%s,%s)' % (k, describe(B, c[1]), describe(B, c[2]))
    if k == 'call':
        n = (c[1] or '?').split('::')[-1]
        try:
            from .ranges import call_args_desc
            args = call_args_desc(B, c)
            if len(args) <= 2:
                return '%s(%s)' % (n, ','.join(describe(B, a) if a[0] != 'call' else 'call' for a in args))
        except Exception:
            pass
        return 'call(%s)' % n
    if k == 'discr':
        return 'discr(%s)' % describe(B, c[1])
    if k in ('payload', 'try'):
        return describe(B, c[1]) + '?'
    return k


def uniq_key(seen, key):
    n = seen.get(key, 0) + 1
    seen[key] = n
    return key if n == 1 else '%s#%d' % (key, n)


def check_casts(ctx, B, rule, include_float=True, reviewed=None):
    """CAST: every lossy integer `as` cast in body B is discharged by the value's range."""
    reviewed = reviewed or {}
    R = Ranges(B)
    seen = {}
    n = 0
    for bb, j, st in B.stmts():
        if st['k'] != '=' or st['rv']['k'] != 'cast':
            continue
        rv = st['rv']
        ck = rv['ck']
        if ck == 'IntToInt':
            fr, to = ty_range(rv['from']), ty_range(rv['to'])
        elif ck == 'IntToFloat' and include_float:
            fr = ty_range(rv['from'])
            to = F64_EXACT if rv['to'] == 'f64' else F32_EXACT
        else:
            continue
        if fr is None or to is None:
            continue      # enum discriminant casts etc.
        if fr[0] >= to[0] and fr[1] <= to[1]:
            continue      # widening: not an obligation
        n += 1
        c = canon(B, rv['op'])
        rng = R.range_of(rv['op'], bb)
        # `T::try_from(x)?` is x itself wherever it exists: described (and bounded) as x
        if c[0] == 'payload' and isinstance(c[1], tuple) and c[1][0] == 'call' and re.search(r'TryFrom<\w+> for \w+>::try_from$|TryInto<\w+> for \w+>::try_into$', str(c[1][1])):
            t_ = B.blocks[c[1][2]]['t']
            if t_['k'] == 'call' and t_['args'] and ty_range(rv['from']):
                c = canon(B, t_['args'][0])
                r2 = R.range_of(t_['args'][0], bb)
                rng = (max(rng[0], r2[0]), min(rng[1], r2[1]))
        inst = uniq_key(seen, '%s:%s(%s->%s)' % (B.path, describe(B, c), rv['from'], rv['to']))
        key = '%s:%s' % (rule, inst)
        where = ctx.where(B, ln=st['ln'])
        # |x| of a NEGATIVE signed x: x.wrapping_neg() reinterpreted as the unsigned type of the same width is exact (MIN included)
        o_ = B.origin(rv['op'])
        if ck == 'IntToInt' and o_[0] == 'call' and o_[1] and str(o_[1]).endswith('::wrapping_neg') and rv['from'][0] == 'i' and rv['to'] == 'u' + rv['from'][1:]:
            ct_ = B.blocks[o_[2]]['t']
            xr = R.range_of(ct_['args'][0], bb) if ct_['args'] else (-INF, INF)
            if xr[1] <= -1:
                ctx.ok(rule, inst, 'magnitude of a value known to be negative ([%s, %s]): wrapping_neg + reinterpretation is exact' % (xr[0], xr[1]), where)
                continue
        if rng[0] >= to[0] and rng[1] <= to[1]:
            ctx.ok(rule, inst, 'value range [%s, %s] fits %s' % (rng[0], rng[1], rv['to']), where)
        elif _reviewed(reviewed, inst):
            ctx.ok(rule, inst, 'reviewed: ' + _reviewed(reviewed, inst), where)
        elif R.uninterpreted_mentions(bb, c):
            ctx.undecided(rule, inst, 'a dominating condition mentions the value but its range [%s, %s] '
                          'could not be shown to fit %s' % (rng[0], rng[1], rv['to']), where)
        else:
            ctx.bad(rule, inst, 'lossy cast %s -> %s of %s: value range [%s, %s] does not fit and no dominating '
                    'guard mentions the value' % (rv['from'], rv['to'], describe(B, c), rng[0], rng[1]), where, key)
    # a narrowing written as a checked conversion is an instance of the rule too (one that holds by construction):
    # replacing `x as u8` behind a guard by `u8::try_from(x)` must not look like a site that went missing
    import re as _re
    for bb, t in B.calls():
        nm = callee_of(t)[1] or callee_of(t)[0] or ''
        m_ = _re.search(r'TryFrom<(\w+)> for (\w+)>::try_from$', nm) or _re.search(r'TryInto<(\w+)> for (\w+)>::try_into$', nm)
        if not m_ or not t['args']:
            continue
        fr_, to_ = (m_.group(1), m_.group(2)) if 'TryFrom' in nm else (m_.group(2), m_.group(1))
        if ty_range(fr_) is None or ty_range(to_) is None:
            continue
        n += 1
        inst = uniq_key(seen, '%s:%s(%s->%s checked)' % (B.path, describe(B, canon(B, t['args'][0])), fr_, to_))
        ctx.ok(rule, inst, 'checked conversion: a value that does not fit is an error, not a different number', ctx.where(B, bb))
    return n


# ------------------------------------------------------------------ LOCK ----

def _moved_locals(op):
    if op['k'] == 'mv':
        return [op['pl']['l']]
    return []


def awaited_guard_start(B, poll_bb):
    """For `let g = m.lock().await`: the block on the Ready edge of the poll at poll_bb, where the
    guard is moved out of the Poll value.  Returns (block, holder local) or None."""
    t = B.blocks[poll_bb]['t']
    sw = t.get('t')
    if sw is None:
        return None
    sd = B.switch_on_discr(sw)
    if not sd:
        return None
    ready = [b for v, b in sd[2] if v == 0]
    if not ready:
        return None
    cur = ready[0]
    for _ in range(3):
        tt = B.blocks[cur]['t']
        if B.blocks[cur]['s'] or tt['k'] not in ('falseedge', 'goto'):
            break
        cur = tt['t']
    return cur, t['dst']['l']


def guard_flow(B, acquire_bb, start=None, holders=None):
    """Forward must-dataflow of 'which locals hold the guard returned by the call
    terminating acquire_bb'.  Returns (state_in, state_before_term): dict bb -> frozenset
    of holder locals (missing key = not reachable from the acquisition).
    The guard moves with `move` operands (assignments, aggregates, call arguments
    -> call destination) and dies at Drop terminators / mem::drop of a holder."""
    t0 = B.blocks[acquire_bb]['t']
    if start is None:
        start = t0.get('t')
    if start is None:
        return {}, {}
    init = frozenset(holders if holders is not None else [t0['dst']['l']])
    state_in = {start: init}
    before_term = {}
    work = [start]
    while work:
        bb = work.pop()
        H = set(state_in[bb])
        blk = B.blocks[bb]
        for st in blk['s']:
            if st['k'] != '=':
                continue
            rv = st['rv']
            moved = []
            if rv['k'] == 'use':
                moved = _moved_locals(rv['op'])
            elif rv['k'] == 'agg':
                for o in rv['ops']:
                    moved += _moved_locals(o)
            elif rv['k'] == 'cast':
                moved = _moved_locals(rv['op'])
            hit = [m for m in moved if m in H]
            if hit:
                for m in hit:
                    H.discard(m)
                H.add(st['pl']['l'])
            elif not st['pl'].get('p') and st['pl']['l'] in H and rv['k'] != 'ref':
                # holder overwritten: old guard dropped by the assignment
                H.discard(st['pl']['l'])
        before_term[bb] = frozenset(H)
        t = blk['t']
        out = set(H)
        if t['k'] == 'drop':
            l = t['pl']['l']
            if l in out and not t['pl'].get('p'):
                out.discard(l)
        elif t['k'] == 'call':
            moved = []
            for a in t['args']:
                moved += _moved_locals(a)
            hit = [m for m in moved if m in out]
            if hit:
                for m in hit:
                    out.discard(m)
                if not is_call_to(t, 'core::mem::drop'):
                    out.add(t['dst']['l'])
        elif t['k'] == 'ret':
            pass
        for s in B.succ(bb):
            new = frozenset(out)
            if s in state_in:
                meet = state_in[s] & new
                if meet != state_in[s]:
                    state_in[s] = meet
                    work.append(s)
            else:
                state_in[s] = new
                work.append(s)
    return state_in, before_term


# ------------------------------------------------------------ Display texts ----

def decode_fmt_template(bs):
    """Decode this compiler's format-template byte string into [('lit', text) | ('hole',) | ('opaque',)].
    Observed encoding (calibrated by fixtures/positive: "{}{}" == c0 c0 00): a byte < 0x80 is the
    length of a literal piece that follows, 0xc0 is a default placeholder, 0x00 terminates.  Anything
    else is reported as opaque (a placeholder with formatting options, followed by option bytes)."""
    out = []
    i = 0
    n = len(bs)
    while i < n:
        b = bs[i]
        if b == 0:
            break
        if b < 0x80:
            out.append(('lit', bytes(bs[i + 1:i + 1 + b]).decode('utf-8', 'replace')))
            i += 1 + b
        elif b == 0xc0:
            out.append(('hole',))
            i += 1
        else:
            out.append(('opaque',))
            # options follow; we cannot know their length: stop decoding literal text here
            rest = bytes(bs[i + 1:])
            # salvage printable runs as literal hints
            out.append(('rest', rest.decode('latin-1')))
            break
    return out


def display_table(P, adt_path):
    """variant name -> list of pieces of its Display text, read from `<ADT as Display>::fmt`."""
    from .core import exclusive_blocks
    B = P.B('<%s as core::fmt::Display>::fmt' % adt_path)
    if B is None:
        return None
    adt = P.F.adts.get(adt_path)
    sw = None
    for i in sorted(B.live_blocks()):
        sd = B.switch_on_discr(i)
        if sd and adt_path in sd[1]:
            sw = (i, sd)
            break
    if sw is None:
        return None
    i, (pl, ty, cases, els) = sw
    starts = sorted({b for _, b in cases})
    excl = exclusive_blocks(B, starts)
    table = {}
    for v, b in cases:
        vname = adt['variants'][v]['n']
        pieces = None
        for bb in sorted(excl[b]):
            t = B.blocks[bb]['t']
            if t['k'] != 'call':
                continue
            g, r = callee_of(t)
            if g and g.endswith('Formatter::<\'a>::write_str'):
                o = B.origin(t['args'][1])
                if o[0] == 'const' and isinstance(o[1], str):
                    pieces = [('lit', o[1])]
            if g and g.startswith('core::fmt::Arguments') and g.endswith('::new'):
                cur = t['args'][0]
                bs = None
                for _ in range(6):
                    if cur['k'] == 'c':
                        bs = cur.get('bytes')
                        break
                    d = B.single_def(cur['pl']['l'])
                    if d is None or d[0] != 's':
                        break
                    rv = d[3]['rv']
                    if rv['k'] in ('use', 'cast'):
                        cur = rv['op']
                    elif rv['k'] == 'ref':
                        cur = {'k': 'cp', 'pl': rv['pl']}
                    else:
                        break
                if bs is not None:
                    pieces = decode_fmt_template(bs)
            if g and g.startswith('core::fmt::Arguments') and g.endswith('::from_str'):
                o = B.origin(t['args'][0])
                if o[0] == 'const' and isinstance(o[1], str):
                    pieces = [('lit', o[1])]
        table[vname] = pieces
    return table


def text_may_contain(pieces, needle):
    """'yes' when a literal piece contains needle, 'maybe' when the text is (almost) all holes/opaque,
    'no' otherwise (holes are assumed not to contain the needle when a literal prefix identifies the variant)."""
    if pieces is None:
        return 'maybe'
    lits = [p[1] for p in pieces if p[0] == 'lit']
    if any(needle in l for l in lits):
        return 'yes'
    if any(p[0] == 'rest' and needle in p[1] for p in pieces):
        return 'yes'
    if not lits or all(len(l.strip()) == 0 for l in lits):
        return 'maybe'
    return 'no'


# -------------------------------------------------------- produced error set ----

def bodies_of_fn(P, fn_path):
    """the body of a function and of every closure / async block nested in it"""
    out = []
    roots, seen = [fn_path], set()
    while roots:
        fp = roots.pop()
        if fp in seen:
            continue
        seen.add(fp)
        for p, b in P.F.bodies.items():
            if (p == fp or p.startswith(fp + '::{')) and b['kind'] in ('Fn', 'AssocFn', 'Closure', 'SyntheticCoroutineBody', 'InlineConst'):
                out.append(P.B(p))
                # a function that is not part of the reviewed tree and is handed over by name (`.filter_map(Self::helper)`) plays the part of a closure
                for q in _fn_items(b):
                    if q in _new_fns(P.F) and q not in seen:
                        roots.append(q)
    return out


def _new_fns(F):
    s = getattr(F, '_new_fn_set', None)
    if s is None:
        s = F._new_fn_set = set(getattr(F, 'inlined', ()) or ())
    return s


def _fn_items(b):
    """paths of functions mentioned as values (not called) in a body"""
    out = getattr(b, '_fn_items', None) if not isinstance(b, dict) else b.get('_fn_items')
    if out is not None:
        return out
    out = []

    def walk(x):
        if isinstance(x, dict):
            if x.get('k') == 'c' and x.get('fn'):
                out.append(x['fn'])
            for v in x.values():
                walk(v)
        elif isinstance(x, list):
            for v in x:
                walk(v)
    for blk in b['blocks']:
        for st in blk['s']:
            walk(st)
        t = blk['t']
        if t['k'] == 'call':
            walk(t['args'])        # the callee itself is not a value
        else:
            walk({k: v for k, v in t.items() if k not in ('f',)})
    b['_fn_items'] = out
    return out


def from_impl_variant(P, err_adt, src_ty):
    """variant constructed by `impl From<src_ty> for err_adt`"""
    for imp in P.F.impls:
        tr = imp.get('trait') or ''
        if imp['self'] == err_adt and tr.startswith('core::convert::From<') and tr[len('core::convert::From<'):-1] == src_ty:
            for it in imp['items']:
                B = P.B(it)
                if B is None:
                    continue
                for bb, j, st in B.stmts():
                    if st['k'] == '=' and st['rv']['k'] == 'agg' and st['rv'].get('adt') == err_adt:
                        return st['rv']['var']
    return None


def from_impl_variants(P, err_adt):
    """{source type: set of err_adt variants `impl From<source> for err_adt` can construct}"""
    out = {}
    for imp in P.F.impls:
        tr = imp.get('trait') or ''
        if imp['self'] == err_adt and tr.startswith('core::convert::From<'):
            src = tr[len('core::convert::From<'):-1]
            vs = set()
            for it in imp['items']:
                for B in bodies_of_fn(P, it):
                    for bb, j, st in B.stmts():
                        if st['k'] == '=' and st['rv']['k'] == 'agg' and st['rv'].get('adt') == err_adt:
                            vs.add(st['rv']['var'])
            out[src] = vs
    return out


def produced_errors(P, fn_path, err_adt, _seen=None, depth=0):
    """Over-approximate set of err_adt variants a function can return:
    variants constructed in it (and its closures), `?`-conversions From<E>, and, recursively,
    the sets of workspace callees whose declared output mentions err_adt."""
    import re
    if _seen is None:
        _seen = {}
    if fn_path in _seen:
        return _seen[fn_path]
    res = {}
    _seen[fn_path] = res
    if depth > 8:
        return res
    for B in bodies_of_fn(P, fn_path):
        for bb, j, st in B.stmts():
            if st['k'] == '=' and st['rv']['k'] == 'agg' and st['rv'].get('adt') == err_adt:
                res.setdefault(st['rv']['var'], 'constructed in %s' % B.path)
        for bb, t in B.calls():
            g, r = callee_of(t)
            if g == 'core::ops::try_trait::FromResidual::from_residual' and t.get('aty'):
                m = re.match(r'core::result::Result<core::convert::Infallible, (.*)>$', t['aty'][0])
                if m and m.group(1) != err_adt:
                    vs_ = from_impl_variants(P, err_adt).get(m.group(1))
                    if vs_:
                        for v in sorted(vs_):
                            res.setdefault(v, '`?` conversion From<%s>' % m.group(1))
                    else:
                        res.setdefault('?From<%s>' % m.group(1), 'unresolved conversion')
            for n in (g, r):
                if not n:
                    continue
                sig = P.F.fns.get(n)
                if sig and err_adt in sig['output'] and n != fn_path:
                    for v, how in produced_errors(P, n, err_adt, _seen, depth + 1).items():
                        res.setdefault(v, 'from callee %s (%s)' % (n.split('::')[-1], how.split(' (')[0]))
            # fn items used as map_err(Error::Io)
            for a in t['args']:
                if a['k'] == 'c' and 'fn' in a and a['fn'].startswith(err_adt + '::'):
                    res.setdefault(a['fn'].rsplit('::', 1)[1], 'constructor passed as function')
    return res


# ------------------------------------------------------------------ PANIC ----

PANIC_FNS = ('core::panicking::panic', 'core::panicking::panic_fmt', 'core::panicking::panic_explicit', 'core::panicking::panic_display',
             'core::panicking::unreachable_display', 'core::panicking::assert_failed', 'std::rt::begin_panic', 'core::panicking::panic_nounwind',
             'std::rt::panic_fmt', 'core::panicking::panic_const', 'core::option::unwrap_failed', 'core::option::expect_failed',
             'core::result::unwrap_failed', 'std::process::abort', 'std::process::exit', 'core::panicking::panic_str_2015')
UNWRAPS = ('core::option::Option::<T>::unwrap', 'core::option::Option::<T>::expect', 'core::result::Result::<T, E>::unwrap',
           'core::result::Result::<T, E>::expect', 'core::result::Result::<T, E>::unwrap_err', 'core::result::Result::<T, E>::expect_err')
# partial APIs of std / bytes: method suffix -> what must hold
PARTIAL = {
    'bytes::buf::buf_impl::Buf::get_u8': ('remaining', 1), 'bytes::buf::buf_impl::Buf::get_u16': ('remaining', 2),
    'bytes::buf::buf_impl::Buf::get_u32': ('remaining', 4), 'bytes::buf::buf_impl::Buf::get_u64': ('remaining', 8),
    'bytes::buf::buf_impl::Buf::get_i32': ('remaining', 4), 'bytes::buf::buf_impl::Buf::get_f64': ('remaining', 8),
    'bytes::buf::buf_impl::Buf::copy_to_slice': ('remaining', 'dst'), 'bytes::buf::buf_impl::Buf::advance': ('remaining', 'arg1'),
    'core::slice::<impl [T]>::copy_from_slice': ('len_eq',), 'core::slice::<impl [T]>::split_at': ('le_len', 1),
    'core::slice::<impl [T]>::split_at_mut': ('le_len', 1), 'alloc::vec::Vec::<T, A>::remove': ('lt_len', 1),
    'alloc::vec::Vec::<T, A>::swap_remove': ('lt_len', 1), 'alloc::vec::Vec::<T, A>::insert': ('le_len', 1),
    'alloc::vec::Vec::<T, A>::split_off': ('le_len', 1), 'alloc::vec::Vec::<T, A>::truncate': None,
    'bytes::bytes::Bytes::slice': ('range_len',), 'bytes::bytes::Bytes::split_to': ('le_len', 1), 'bytes::bytes::Bytes::split_off': ('le_len', 1),
    'bytes::bytes_mut::BytesMut::split_to': ('le_len', 1), 'bytes::bytes_mut::BytesMut::split_off': ('le_len', 1),
    'core::num::<impl i64>::abs': ('not_min',), 'core::num::<impl i32>::abs': ('not_min',),
    'alloc::string::String::remove': ('char_boundary', 1), 'core::str::<impl str>::split_at': ('char_boundary', 1),
    'core::str::<impl str>::split_at_mut': ('char_boundary', 1), 'alloc::string::String::truncate': ('char_boundary', 1),
    'alloc::string::String::split_off': ('char_boundary', 1), 'alloc::string::String::insert': ('char_boundary', 1),
    'alloc::string::String::insert_str': ('char_boundary', 1),
}
# producers of byte positions that are always on a character boundary
BOUNDARY_PRODUCERS = ('::find', '::rfind', '::len', '::floor_char_boundary', '::ceil_char_boundary', '::len_utf8', '::char_indices', '::match_indices', '::rmatch_indices')
INDEXABLE = ('alloc::vec::Vec<', '[', '&[', 'bytes::bytes::Bytes', 'bytes::bytes_mut::BytesMut', 'alloc::string::String', 'str',
             'alloc::collections::vec_deque::VecDeque<')


def _is_index_call(t):
    g, r = callee_of(t)
    if g in ('core::ops::index::Index::index', 'core::ops::index::IndexMut::index_mut'):
        return True
    return False


def _range_arg(B, op):
    """classify an index argument: ('int', operand) | ('to', end) | ('from', start) | ('range', start, end) |
    ('incl', start, end) | ('full',) | ('other', desc)"""
    ty = None
    if op['k'] in ('cp', 'mv'):
        ty = B.local_ty(op['pl']['l']) if not op['pl'].get('p') else None
    elif op['k'] == 'c':
        ty = op.get('ty')
    if ty in ('usize',):
        return ('int', op)
    o = B.origin(op)
    if o[0] == 'agg' and o[1]['ak'] == 'adt':
        adt = o[1]['adt']
        ops = o[1]['ops']
        if adt.endswith('::RangeTo'):
            return ('to', ops[0])
        if adt.endswith('::RangeFrom'):
            return ('from', ops[0])
        if adt.endswith('::Range'):
            return ('range', ops[0], ops[1])
        if adt.endswith('::RangeFull'):
            return ('full',)
        if adt.endswith('::RangeToInclusive'):
            return ('to_incl', ops[0])
    if o[0] == 'call' and o[1] and o[1].endswith('RangeInclusive::<Idx>::new'):
        t = B.blocks[o[2]]['t']
        return ('incl', t['args'][0], t['args'][1])
    if ty and ('usize' == ty):
        return ('int', op)
    if o[0] in ('const',) and isinstance(o[1], int):
        return ('int', op)
    c = canon(B, op)
    if op['k'] in ('cp', 'mv') and (B.local_ty(op['pl']['l']) == 'usize'):
        return ('int', op)
    return ('other', str(o)[:80])


def panic_sites(B, R=None):
    """Enumerate panic-capable sites of body B: list of dict(kind, bb, desc, check) where check(R) -> (ok, detail, mentioned)."""
    sites = []
    live = B.live_blocks()
    for bb in sorted(live):
        B._cur_at = (bb, None)         # operands below are read at the end of this block
        blk = B.blocks[bb]
        t = blk['t']
        if t['k'] == 'assert':
            mk = t['mk']
            if mk == 'bounds':
                ln, ix = t['mops']
                sites.append({'kind': 'bounds', 'bb': bb, 'desc': 'index %s < len %s' % (describe(B, canon(B, ix)), describe(B, canon(B, ln))),
                              'need': ('lt', canon(B, ix), canon(B, ln))})
            elif mk == 'overflow':
                a, b_ = t['mops']
                sites.append({'kind': 'overflow', 'bb': bb, 'desc': '%s(%s,%s)' % (t.get('bop'), describe(B, canon(B, a)), describe(B, canon(B, b_))),
                              'need': ('arith', t.get('bop'), a, b_)})
            elif mk == 'overflow_neg':
                sites.append({'kind': 'overflow', 'bb': bb, 'desc': 'Neg(%s)' % describe(B, canon(B, t['mops'][0])), 'need': ('neg', t['mops'][0])})
            elif mk in ('div0', 'rem0'):
                # the assert condition is `divisor == 0` expected false
                src, neg = B.bool_source(t['cond'])
                div = None
                if src[0] == 'bin' and src[2]['op'] == 'Eq':
                    div = src[2]['a'] if fold(B.origin(src[2]['b'])) == 0 else src[2]['b']
                sites.append({'kind': 'div0', 'bb': bb, 'desc': '%s of %s by %s' % (mk, describe(B, canon(B, t['mops'][0])), describe(B, canon(B, div)) if div else '?'),
                              'need': ('nonzero', div) if div is not None else ('unknown', 'divisor')})
            continue
        if t['k'] != 'call':
            continue
        g, r = callee_of(t)
        names = [x for x in (g, r) if x]
        if _is_index_call(t):
            base_ty = t['aty'][0] if t.get('aty') else ''
            bty = base_ty.replace('&mut ', '').replace('&', '')
            if 'HashMap' in bty or 'BTreeMap' in bty or 'DashMap' in bty:
                sites.append({'kind': 'map-index', 'bb': bb, 'desc': 'map[key] on %s' % bty.split('<')[0], 'need': ('never',)})
                continue
            ra = _range_arg(B, t['args'][1])
            basec = canon(B, t['args'][0])
            lenc = ('len', basec)
            import re
            m = re.match(r'^\[[^;]+; (\d+)\]$', bty)
            if m:
                lenc = ('const', int(m.group(1)))
            d = describe(B, basec)
            if ra[0] == 'int':
                sites.append({'kind': 'index', 'bb': bb, 'desc': '%s[%s]' % (d, describe(B, canon(B, ra[1]))), 'need': ('lt', canon(B, ra[1]), lenc)})
            elif ra[0] == 'to':
                sites.append({'kind': 'slice', 'bb': bb, 'desc': '%s[..%s]' % (d, describe(B, canon(B, ra[1]))), 'need': ('le', canon(B, ra[1]), lenc)})
            elif ra[0] == 'to_incl':
                sites.append({'kind': 'slice', 'bb': bb, 'desc': '%s[..=%s]' % (d, describe(B, canon(B, ra[1]))), 'need': ('lt', canon(B, ra[1]), lenc)})
            elif ra[0] == 'from':
                sites.append({'kind': 'slice', 'bb': bb, 'desc': '%s[%s..]' % (d, describe(B, canon(B, ra[1]))), 'need': ('le', canon(B, ra[1]), lenc)})
            elif ra[0] == 'range':
                sites.append({'kind': 'slice', 'bb': bb, 'desc': '%s[%s..%s]' % (d, describe(B, canon(B, ra[1])), describe(B, canon(B, ra[2]))),
                              'need': ('range', canon(B, ra[1]), canon(B, ra[2]), lenc)})
            elif ra[0] == 'incl':
                sites.append({'kind': 'slice', 'bb': bb, 'desc': '%s[%s..=%s]' % (d, describe(B, canon(B, ra[1])), describe(B, canon(B, ra[2]))),
                              'need': ('range_incl', canon(B, ra[1]), canon(B, ra[2]), lenc)})
            elif ra[0] == 'full':
                pass
            else:
                sites.append({'kind': 'index', 'bb': bb, 'desc': '%s[?]' % d, 'need': ('unknown', ra[1])})
            if bty in ('str', 'alloc::string::String') and ra[0] in ('to', 'to_incl', 'from', 'range', 'incl'):
                # slicing text by byte positions additionally needs every end to fall on a UTF-8 character boundary
                for endop in ra[1:]:
                    sites.append({'kind': 'charbound', 'bb': bb, 'desc': '%s[char boundary at %s]' % (d, describe(B, canon(B, endop))), 'need': ('charbound', endop, t['args'][0])})
            continue
        if any(n in UNWRAPS for n in names):
            recv = canon(B, t['args'][0])
            sites.append({'kind': 'unwrap', 'bb': bb, 'desc': '%s(%s)' % (g.rsplit('::', 1)[1], describe(B, recv)), 'need': ('unwrap', t)})
            continue
        if any(n in PANIC_FNS or n.startswith('core::panicking::panic_const::') for n in names):
            sites.append({'kind': 'panic', 'bb': bb, 'desc': 'explicit %s' % g.rsplit('::', 1)[1], 'need': ('unreachable',)})
            continue
        # `Instant + Duration` / `SystemTime + Duration` / `Duration + Duration` panic on overflow (checked_add does not)
        if any(n.endswith('ops::arith::Add::add') or n.endswith('ops::arith::Sub::sub') or n.endswith('ops::arith::AddAssign::add_assign') for n in names) \
                and any(('time::Instant' in str(x) or 'time::Duration' in str(x) or 'SystemTime' in str(x)) for x in (t.get('aty') or [])):
            sites.append({'kind': 'time-arith', 'bb': bb, 'desc': '%s(%s)' % (g.rsplit('::', 1)[1], ','.join(str(x).rsplit('::', 1)[-1] for x in (t.get('aty') or []))), 'need': ('time-arith', t)})
            continue
        for n in names:
            if n in PARTIAL and PARTIAL[n] is not None:
                sites.append({'kind': 'partial', 'bb': bb, 'desc': '%s(%s)' % (n.rsplit('::', 1)[1], ','.join(describe(B, canon(B, a)) for a in t['args'][:2])),
                              'need': ('partial', n, t)})
                break
    B._cur_at = None
    return sites


def _len_fn(B, op, depth=0):
    """the function value `op` (a fn item or a closure) maps a buffer to its length (possibly wrapped in an Option)"""
    from .ranges import LEN_FNS
    if op.get('k') == 'c' and op.get('fn'):
        return op['fn'] in LEN_FNS or op['fn'].endswith('::len')
    o = B.origin(op)
    if o[0] == 'agg' and o[1].get('ak') == 'closure' and B.PROGRAM is not None and depth < 3:
        CB = B.PROGRAM.B(o[1].get('def'))
        if CB is None:
            return False
        lens = 0
        for bb, t in CB.calls():
            nm = callee_of(t)[0] or ''
            if nm in LEN_FNS or nm.endswith('::len'):
                lens += 1
            elif nm.endswith('Option::<T>::map') and len(t['args']) > 1 and _len_fn(CB, t['args'][1], depth + 1):
                lens += 1
            elif nm.endswith('Option::<T>::as_ref') or nm.endswith('Deref::deref') or nm.endswith('AsRef::as_ref'):
                continue
            else:
                return False
        if any(st['k'] == '=' and st['rv']['k'] == 'bin' for bb, j, st in CB.stmts()):
            return False
        return lens >= 1
    return False


def _mem_len(B, o, depth=0):
    """the origin is the length of a buffer, or a sum of such lengths (over the elements of a collection / of an Option)"""
    from .ranges import LEN_FNS
    if depth > 8:
        return False
    k = o[0]
    if k == 'const':
        return isinstance(o[1], int) and 0 <= o[1] < 2**32
    if k in ('payload', 'try', 'try_lit'):
        return _mem_len(B, o[1], depth + 1)
    if k == 'bin' and o[1] in ('Add', 'AddWithOverflow'):
        return _mem_len(B, o[2], depth + 1) and _mem_len(B, o[3], depth + 1)
    if k == 'proj' and o[2] == ('0',) and o[1][0] == 'bin':
        return _mem_len(B, o[1], depth + 1)
    if k != 'call' or not o[1] or o[3]:
        return False
    nm = o[1]
    t = B.blocks[o[2]]['t']
    if nm in LEN_FNS or nm.endswith('::len'):
        return True
    last = nm.rsplit('::', 1)[-1]
    if last == 'sum' and 'Iterator' in nm and t['args']:
        cur = t['args'][0]
        for _ in range(8):
            oc = B.origin(cur)
            if oc[0] != 'call' or not oc[1]:
                return False
            ct = B.blocks[oc[2]]['t']
            ln = oc[1].rsplit('::', 1)[-1]
            if ln in ('map', 'filter_map', 'flat_map') and len(ct['args']) > 1:
                return _len_fn(B, ct['args'][1])
            if ln in ('flatten', 'filter', 'copied', 'cloned', 'into_iter', 'skip', 'take', 'rev', 'chain') and ct['args']:
                cur = ct['args'][0]
                continue
            return False
        return False
    if last in ('unwrap_or', 'unwrap_or_default') and 'Option' in nm and t['args']:
        if last == 'unwrap_or' and B.origin(t['args'][1])[0] != 'const':
            return False
        oi = B.origin(t['args'][0])
        if oi[0] == 'call' and oi[1] and oi[1].endswith('Option::<T>::map'):
            it = B.blocks[oi[2]]['t']
            return len(it['args']) > 1 and _len_fn(B, it['args'][1])
        return False
    if last == 'map_or' and 'Option' in nm and len(t['args']) > 2:
        return B.origin(t['args'][1])[0] == 'const' and _len_fn(B, t['args'][2])
    return False


def discharge(B, R, site):
    """-> (verdict, detail) with verdict in 'ok' | 'bad' | 'undecided'."""
    prev_at = getattr(B, '_cur_at', None)
    B._cur_at = (site['bb'], None)
    try:
        return _discharge(B, R, site)
    finally:
        B._cur_at = prev_at


def _discharge(B, R, site):
    bb = site['bb']
    need = site['need']
    k = need[0]

    def ment(*cs):
        # a failed proof is only 'undecided' when some dominating condition about these values
        # has a form the interval/relational analysis does not interpret
        return any(R.uninterpreted_mentions(bb, c) for c in cs if c[0] not in ('const',))

    if R.infeasible(bb):
        return 'ok', 'site is unreachable: its dominating conditions are contradictory'
    def ment_len(lenc):
        # a guard can only help when it says something about the length (or the container) itself
        if lenc[0] == 'const':
            return False
        return ment(lenc) or (lenc[0] == 'len' and ment(lenc[1]))

    if k == 'lt':
        if R.prove_le(need[1], need[2], bb, strict=True):
            return 'ok', 'index < length established by dominating guards'
        return ('undecided' if ment_len(need[2]) else 'bad'), 'cannot show %s < %s' % (describe(B, need[1]), describe(B, need[2]))
    if k == 'le':
        if R.prove_le(need[1], need[2], bb, strict=False):
            return 'ok', 'bound <= length established by dominating guards'
        return ('undecided' if ment_len(need[2]) else 'bad'), 'cannot show %s <= %s' % (describe(B, need[1]), describe(B, need[2]))
    if k == 'range':
        a = R.prove_le(need[1], need[2], bb, False)
        b_ = R.prove_le(need[2], need[3], bb, False)
        if a and b_:
            return 'ok', 'start <= end <= length established'
        return ('undecided' if ment_len(need[3]) else 'bad'), 'cannot show %s <= %s <= %s' % (describe(B, need[1]), describe(B, need[2]), describe(B, need[3]))
    if k == 'range_incl':
        a = R.prove_le(need[1], need[2], bb, False)
        b_ = R.prove_le(need[2], need[3], bb, True)
        if a and b_:
            return 'ok', 'start <= end < length established'
        return ('undecided' if ment_len(need[3]) else 'bad'), 'cannot show range within length'
    if k == 'arith':
        op, a, b_ = need[1], need[2], need[3]
        ra, rb = R.range_of(a, bb), R.range_of(b_, bb)
        tr = ty_range(B.local_ty(a['pl']['l']) if a['k'] != 'c' and not a['pl'].get('p') else a.get('ty', '')) or ty_range(
            B.local_ty(b_['pl']['l']) if b_['k'] != 'c' and not b_['pl'].get('p') else b_.get('ty', ''))
        if tr is None:
            return 'undecided', 'operand type unknown'
        if op == 'Add' and tr[1] >= 2**63 - 1 and ((rb[0] == rb[1] == 1) or (ra[0] == ra[1] == 1)):
            return 'ok', 'increment of a 64-bit counter: 2^63 increments are unreachable'
        if op == 'Add':
            lo, hi = ra[0] + rb[0], ra[1] + rb[1]
        elif op == 'Sub':
            lo, hi = ra[0] - rb[1], ra[1] - rb[0]
            # a - b with b <= a proven relationally
            if lo < tr[0] and R.prove_le(canon(B, b_), canon(B, a), bb, False):
                lo = max(lo, 0)
        elif op == 'Mul':
            cands = [ra[0] * rb[0], ra[0] * rb[1], ra[1] * rb[0], ra[1] * rb[1]] if INF not in (abs(ra[0]), abs(ra[1]), abs(rb[0]), abs(rb[1])) else [-INF, INF]
            lo, hi = min(cands), max(cands)
        elif op in ('Rem', 'Div'):
            # signed MIN / -1 is the only overflowing case
            if ra[0] > tr[0] or rb[0] > -1 or rb[1] < -1:
                return 'ok', 'MIN %s -1 excluded by the operand ranges' % ('%' if op == 'Rem' else '/')
            return ('undecided' if ment(canon(B, a), canon(B, b_)) else 'bad'), '%s may overflow (MIN and -1 both possible)' % op
        elif op in ('Shl', 'Shr'):
            bits = {255: 8, 65535: 16}.get(tr[1], 64 if tr[1] > 2**32 else 32)
            if rb[1] < bits and rb[0] >= 0:
                return 'ok', 'shift amount < bit width'
            return ('undecided' if ment(canon(B, b_)) else 'bad'), 'shift amount may reach the bit width'
        else:
            return 'undecided', 'operator %s' % op
        if lo >= tr[0] and hi <= tr[1]:
            return 'ok', 'result range [%s, %s] fits the type' % (lo, hi)
        if op == 'Add' and tr[1] >= 2**63 - 1 and tr[0] == 0 and _mem_len(B, B.origin(a)) and _mem_len(B, B.origin(b_)):
            return 'ok', 'sum of the lengths of byte buffers that are all held in memory at the same time: bounded by the address space'
        return ('undecided' if ment(canon(B, a), canon(B, b_)) else 'bad'), '%s may overflow: operand ranges [%s,%s] and [%s,%s]' % (op, ra[0], ra[1], rb[0], rb[1])
    if k == 'neg':
        ra = R.range_of(need[1], bb)
        op_ = need[1]
        tr = ty_range(B.local_ty(op_['pl']['l'])) if (op_['k'] != 'c' and not op_['pl'].get('p')) else None
        tr = tr or (-2**63, 2**63 - 1)
        if ra[0] > tr[0]:
            return 'ok', 'operand > MIN'
        return ('undecided' if ment(canon(B, need[1])) else 'bad'), 'negation of MIN possible'
    if k == 'nonzero':
        ra = R.range_of(need[1], bb)
        if ra[0] > 0 or ra[1] < 0:
            return 'ok', 'divisor is non-zero'
        if R.nonzero(need[1], bb):
            return 'ok', 'divisor is non-zero: a comparison with zero on every path here excludes it'
        return ('undecided' if ment(canon(B, need[1])) else 'bad'), 'divisor may be zero'
    if k == 'unwrap':
        t = need[1]
        # accepted: dominated by is_some()/is_ok() true edge on the same value
        recv = canon(B, t['args'][0])
        from .core import dominating_edges
        for (src, vals, dst) in dominating_edges(B, bb):
            sb = B.switch_bool_edges(src)
            if sb and sb[0][0] == 'call':
                ct = sb[0][2]
                nm = callee_of(ct)[0] or ''
                if ct['args'] and canon(B, ct['args'][0]) == recv:
                    if (nm.endswith('::is_some') or nm.endswith('::is_ok')) and dst == sb[1]:
                        return 'ok', 'dominated by a successful is_some()/is_ok() test on the same value'
                    if (nm.endswith('::is_none') or nm.endswith('::is_err')) and dst == sb[2]:
                        return 'ok', 'dominated by a failed is_none()/is_err() test on the same value'
        o = B.origin(t['args'][0])
        base = o
        while base[0] in ('payload', 'try', 'awaited', 'awaited_value', 'proj'):
            base = base[1]
        if base[0] == 'call' and base[1]:
            n = base[1]
            if n.endswith('Mutex::<T>::lock') or n.endswith('RwLock::<T>::read') or n.endswith('RwLock::<T>::write'):
                return 'ok', 'lock poisoning: fails only after another thread already panicked'
            if n.endswith('TryInto::try_into') or n.endswith('TryFrom::try_from'):
                # slice -> array conversion of a slice whose length is fixed by construction
                return 'undecided', 'conversion result unwrapped'
        return 'bad', 'unwrap/expect on a value that is not shown to be Some/Ok'
    if k == 'time-arith':
        t = need[1]
        # a constant right-hand side (a few seconds) cannot overflow a clock reading in practice; a caller-supplied duration can
        o = B.origin(t['args'][1]) if len(t['args']) > 1 else ('unknown',)
        if o[0] == 'const' or (o[0] == 'call' and str(o[1]).endswith('Duration::from_secs') or o[0] == 'call' and str(o[1]).endswith('Duration::from_millis')):
            return 'ok', 'constant duration'
        return 'bad', 'time arithmetic with a caller-supplied operand panics on overflow (Duration::MAX + now); use checked_add'
    if k == 'unknown':
        return 'undecided', 'obligation shape not recognised (%s)' % (need[1],)
    if k == 'unreachable':
        return 'bad', 'explicit panic is reachable'
    if k == 'never':
        return 'bad', 'indexing a map panics on a missing key'
    if k == 'charbound':
        return _charbound(B, R, bb, need[1], need[2], ment)
    if k == 'partial':
        n, t = need[1], need[2]
        spec = PARTIAL[n]
        if spec[0] == 'remaining':
            return 'undecided', 'Buf consumption (checked by the dedicated Buf accounting rule where applicable)'
        if spec[0] in ('le_len', 'lt_len'):
            idx = canon(B, t['args'][spec[1]])
            ln = ('len', canon(B, t['args'][0]))
            if R.prove_le(idx, ln, bb, strict=(spec[0] == 'lt_len')):
                return 'ok', 'index within length'
            return ('undecided' if ment(idx, ln) else 'bad'), 'index may exceed length'
        if spec[0] == 'char_boundary':
            return _charbound(B, R, bb, t['args'][spec[1]], t['args'][0], ment)
        if spec[0] == 'len_eq':
            a = ('len', canon(B, t['args'][0]))
            b_ = ('len', canon(B, t['args'][1]))
            ra, rb = R._range_canon(a, bb, None, True, 0), R._range_canon(b_, bb, None, True, 0)
            la = _static_len(B, t['args'][0])
            lb = _static_len(B, t['args'][1])
            if la is not None and lb is not None and la == lb:
                return 'ok', 'both sides have static length %d' % la
            if la is not None and lb is not None and la != lb:
                return 'bad', 'copy_from_slice between slices of different static lengths (%d vs %d) always panics' % (la, lb)
            if ra[0] == ra[1] == rb[0] == rb[1]:
                return 'ok', 'lengths equal'
            # dst[..n].copy_from_slice(src) with n == src.len()
            o0 = B.origin(t['args'][0])
            while o0[0] == 'cast':
                o0 = o0[3]
            if o0[0] == 'call' and o0[1] and (o0[1].endswith('::index_mut') or o0[1].endswith('::index')):
                it = B.blocks[o0[2]]['t']
                ro = B.origin(it['args'][1])
                if ro[0] == 'agg' and ro[1].get('adt', '').endswith('RangeTo'):
                    n = canon(B, ro[1]['ops'][0])
                    if n == ('len', canon(B, t['args'][1])):
                        # and the destination prefix exists: n <= len(dst)
                        dlen = ('len', canon(B, it['args'][0]))
                        sl = _static_len(B, it['args'][0])
                        if sl is None and it.get('aty'):
                            import re as _re
                            m_ = _re.match(r'&(mut )?\[[^;\]]+; (\d+)\]$', it['aty'][0])
                            if m_:
                                sl = int(m_.group(2))
                        if sl is not None:
                            dlen = ('const', sl)
                        if R.prove_le(n, dlen, bb, False):
                            return 'ok', 'destination prefix [..n] with n = source length, n <= destination length'
            return 'undecided', 'slice lengths not shown equal (%s vs %s)' % (la, lb)
        if spec[0] == 'not_min':
            ra = R.range_of(t['args'][0], bb)
            if ra[0] > -2**63:
                return 'ok', 'operand > MIN'
            return ('undecided' if ment(canon(B, t['args'][0])) else 'bad'), 'abs(MIN) overflows'
        return 'undecided', 'partial API %s' % n
    return 'undecided', 'unrecognised obligation'


def _charbound(B, R, bb, idx_op, str_op, ment):
    """byte position idx_op into the text str_op must be on a UTF-8 character boundary (String::truncate, split_at, &s[a..b] ...)"""
    ci = canon(B, idx_op)
    rng = R.range_of(idx_op, bb)
    if rng == (0, 0):
        return 'ok', 'position 0'
    if ci == ('len', canon(B, str_op)):
        return 'ok', 'position = length of the same text'
    o = B.origin(idx_op)
    base = o
    while isinstance(base, tuple) and base and base[0] in ('payload', 'try', 'proj', 'cast'):
        base = base[1] if base[0] != 'cast' else base[3]
    if isinstance(base, tuple) and base and base[0] == 'call' and base[1] and any(str(base[1]).endswith(x) for x in BOUNDARY_PRODUCERS):
        return 'ok', 'position produced by %s, always a character boundary' % str(base[1]).rsplit('::', 1)[-1]
    for (src, vals, dst) in dominating_edges(B, bb):
        sb = B.switch_bool_edges(src)
        if sb and sb[0][0] == 'call' and (callee_of(sb[0][2])[0] or '').endswith('is_char_boundary') and dst == sb[1] and len(sb[0][2]['args']) > 1 \
                and canon(B, sb[0][2]['args'][1]) == ci:
            return 'ok', 'dominated by is_char_boundary() of the same position'
    return 'bad', 'byte position %s into a str is not known to be a UTF-8 character boundary: the call panics when it falls inside a multi-byte character (content-dependent)' % describe(B, ci)


def _static_len(B, op):
    """length of a slice operand when statically known: array type, or take(n)/split of constant size"""
    import re
    o = B.origin(op)
    while o[0] == 'cast':
        m = re.search(r'\[[^;\]]+; (\d+)\]', o[1])
        if m:
            return int(m.group(1))
        o = o[3]
    if o[0] in ('local', 'arg') and not o[2]:
        m = re.search(r'\[[^;\]]+; (\d+)\]', B.local_ty(o[1]))
        if m:
            return int(m.group(1))
    # (rest, x) = take(N)(input)?  ->  x has length N
    base = o
    projs = ()
    while base[0] in ('proj', 'payload', 'try'):
        if base[0] == 'proj':
            projs = tuple(base[2]) + projs
        base = base[1]
    if base[0] == 'call' and callee_of(B.blocks[base[2]]['t'])[0] in ('core::ops::function::FnMut::call_mut', 'nom::internal::Parser::parse', 'core::ops::function::FnOnce::call_once'):
        t = B.blocks[base[2]]['t']
        fo = B.origin(t['args'][0])
        if fo[0] == 'call' and fo[1] and fo[1].startswith('nom::bytes::complete::take'):
            n = fold(B.origin(B.blocks[fo[2]]['t']['args'][0]))
            if n is not None and ('1' in projs or '1' in tuple(base[3])):
                return n
    return None


def _reviewed(table, inst):
    """exact key, or a key of the form 're:<regex>' matched against the whole instance"""
    import re
    if inst in table:
        return table[inst]
    for k, v in table.items():
        if k.startswith('re:') and re.fullmatch(k[3:], inst):
            return v
    return None


def check_panics(ctx, B, rule, reviewed=None, kinds=None, key_prefix='PANIC'):
    """PANIC family over one body; returns number of sites."""
    reviewed = reviewed or {}
    R = Ranges(B)
    seen = {}
    n = 0
    for site in panic_sites(B):
        if kinds and site['kind'] not in kinds:
            continue
        n += 1
        inst = uniq_key(seen, '%s:%s' % (B.path, site['desc']))
        verdict, detail = discharge(B, R, site)
        where = ctx.where(B, site['bb'])
        if verdict == 'ok':
            ctx.ok(rule, inst, detail, where)
        elif _reviewed(reviewed, inst):
            ctx.ok(rule, inst, 'reviewed: ' + _reviewed(reviewed, inst), where)
        elif verdict == 'undecided':
            ctx.undecided(rule, inst, detail, where)
        else:
            ctx.bad(rule, inst, '%s site not discharged: %s' % (site['kind'], detail), where, key='%s:%s' % (key_prefix, inst))
    # the scan itself is an instance: how many panic-capable constructs a body contains is a matter of style (`data[0] == x` or a slice pattern)
    if not kinds or n == 0:
        ctx.ok(rule, '%s:examined' % B.path, 'body examined: %d %s site(s), %d block(s)' % (n, 'panic-capable' if not kinds else '/'.join(kinds), len(B.blocks)), ctx.where(B))
    return n


# ------------------------------------------------------------------ ALLOC ----

ALLOC_LIMIT = 1 << 20
ALLOC_FNS = {
    'alloc::vec::Vec::<T>::with_capacity': 0, 'alloc::vec::from_elem': 1, 'alloc::vec::Vec::<T, A>::reserve': 1,
    'alloc::vec::Vec::<T, A>::reserve_exact': 1, 'alloc::vec::Vec::<T, A>::resize': 1, 'alloc::vec::Vec::<T, A>::with_capacity_in': 0,
    'bytes::bytes_mut::BytesMut::with_capacity': 0, 'alloc::string::String::with_capacity': 0,
    'std::collections::hash::map::HashMap::<K, V>::with_capacity': 0, 'alloc::collections::vec_deque::VecDeque::<T>::with_capacity': 0,
    'bytes::bytes_mut::BytesMut::reserve': 1, 'bytes::bytes_mut::BytesMut::resize': 1, 'bytes::bytes_mut::BytesMut::zeroed': 0,
}


def _vec_esz(B, t, argpos):
    """element size of the vector being allocated"""
    l = t['dst']['l']
    e = B.b['locals'][l].get('esz')
    if e is not None:
        return e
    if argpos == 1 and t['args'] and t['args'][0]['k'] in ('cp', 'mv'):
        # receiver: &mut Vec<T>
        cur = t['args'][0]
        for _ in range(6):
            ll = cur['pl']['l']
            e = B.b['locals'][ll].get('esz')
            if e is not None:
                return e
            d = B.single_def(ll)
            if d and d[0] == 's' and d[3]['rv']['k'] == 'ref':
                cur = {'k': 'cp', 'pl': d[3]['rv']['pl']}
                continue
            break
    ty = B.local_ty(l)
    if 'BytesMut' in ty or 'String' in ty or 'Vec<u8>' in ty:
        return 1
    return None


def check_allocs(ctx, B, rule, reviewed=None, key_prefix='ALLOC'):
    """ALLOC: every non-constant capacity/size is bounded by a small constant (x element size <= 1 MiB)
    or by the length of an input slice in scope."""
    reviewed = reviewed or {}
    R = Ranges(B)
    seen = {}
    n = 0
    slices = []       # (canon, defining block or None for parameters)
    for i, l in enumerate(B.b['locals']):
        if l['ty'] in ('&[u8]', '&mut &[u8]') and (l.get('n') or 1 <= i <= B.b['argc']):
            defs = B.defs().get(i, [])
            if 1 <= i <= B.b['argc'] and not defs:
                slices.append((canon(B, {'k': 'cp', 'pl': {'l': i}}), None))
            elif len(defs) == 1:
                slices.append((canon(B, {'k': 'cp', 'pl': {'l': i}}), defs[0][1]))
    for bb, t in B.calls():
        g, r = callee_of(t)
        pos = None
        for nme in (g, r):
            if nme in ALLOC_FNS:
                pos = ALLOC_FNS[nme]
                fn = nme
        if pos is None or len(t['args']) <= pos:
            continue
        op = t['args'][pos]
        if op['k'] == 'c':
            continue
        n += 1
        c = canon(B, op)
        esz = _vec_esz(B, t, pos) or 1
        inst = uniq_key(seen, '%s:%s(%s)' % (B.path, fn.rsplit('::', 1)[1], describe(B, c)))
        rng = R.range_of(op, bb)
        where = ctx.where(B, bb)
        if rng[1] != INF and rng[1] * esz <= ALLOC_LIMIT:
            ctx.ok(rule, inst, 'at most %d elements x %d bytes = %d bytes' % (rng[1], esz, rng[1] * esz), where)
            continue
        bounded = None
        for sc, db in slices:
            # the slice must already exist when the allocation happens
            if db is not None and (db == bb or not B.block_dominates(db, bb)):
                continue
            if R.prove_le(c, ('len', sc), bb, strict=False):
                bounded = sc
                break
        if bounded is not None:
            ctx.ok(rule, inst, 'bounded by the length of the remaining input %s' % describe(B, bounded), where)
        elif inst in reviewed:
            ctx.ok(rule, inst, 'reviewed: ' + reviewed[inst], where)
        else:
            ctx.bad(rule, inst, 'allocation of up to %s elements x %d bytes requested from a wire-supplied count, bounded neither by the input length nor by a small constant' % (
                rng[1], esz), where, key='%s:%s' % (key_prefix, inst))
    return n


def _mentions_wire_number(c):
    """does canonical value c contain a number read from the input by a nom number parser?"""
    if isinstance(c, tuple):
        if len(c) >= 2 and c[0] == 'call' and isinstance(c[1], str) and c[1].startswith('nom::number::'):
            return True
        return any(_mentions_wire_number(x) for x in c)
    return False


def check_read_to_end(ctx, B, rule):
    """Read::read_to_end / read_to_string must be called on a length-limited reader (io::Take) whose limit is the
    size the input declares (plus at most a few bytes to detect an overrun), or a small constant."""
    n = 0
    R = None
    for bb, t in B.calls():
        g, r = callee_of(t)
        if g in ('std::io::Read::read_to_end', 'std::io::Read::read_to_string'):
            n += 1
            recv = t['aty'][0] if t.get('aty') else ''
            inst = '%s:%s' % (B.path, g.rsplit('::', 1)[1])
            if 'std::io::Take<' not in recv:
                ctx.bad(rule, inst, 'unbounded %s on %s: the output grows with whatever the stream inflates to, not with the input or the declared size' % (
                    g.rsplit('::', 1)[1], recv), ctx.where(B, bb), key='ALLOC:%s:unbounded' % inst)
                continue
            # the limit handed to take()
            takes = [(b2, t2) for b2, t2 in B.calls() if is_call_to(t2, 'std::io::Read::take')]
            c0 = canon(B, t['args'][0])
            tk = [x for x in takes if c0 == ('call', 'std::io::Read::take', x[0])]
            if len(tk) != 1:
                ctx.undecided(rule, inst, 'the Take reader is not built by a single take() call in this function (%s)' % describe(B, c0), ctx.where(B, bb))
                continue
            b2, t2 = tk[0]
            R = R or Ranges(B)
            lim = canon(B, t2['args'][1])
            rng = R.range_of(t2['args'][1], b2)
            core = lim
            slack = 0
            while isinstance(core, tuple) and core[0] in ('bin', 'cast'):
                if core[0] == 'cast':
                    core = core[-1] if isinstance(core[-1], tuple) else core[1]
                    continue
                if core[1] == 'Add' and core[3][0] == 'const' and isinstance(core[3][1], int):
                    slack += core[3][1]
                    core = core[2]
                    continue
                break
            if _mentions_wire_number(core) and core[0] != 'bin' and slack <= 8:
                ctx.ok(rule, inst, 'reads through %s limited to %s (the size the input declares%s)' % (recv, describe(B, lim), ' + %d' % slack if slack else ''), ctx.where(B, bb))
            elif rng[1] <= 1 << 20:
                ctx.ok(rule, inst, 'reads through %s limited to at most %s bytes' % (recv, rng[1]), ctx.where(B, bb))
            elif not _mentions_wire_number(lim):
                ctx.bad(rule, inst, 'the reader is limited to %s (up to %s bytes), which is not the size the input declares: a small input that under-declares its size still inflates that much'
                        % (describe(B, lim), rng[1]), ctx.where(B, b2), key='ALLOC:%s:limit-not-declared-size' % inst)
            else:
                ctx.undecided(rule, inst, 'limit %s not recognised as declared size + small constant' % describe(B, lim), ctx.where(B, b2))
    return n


# -------------------------------------------------------------------- REC ----

def check_recursion(ctx, P, roots, rule, crate=None, key_prefix='REC'):
    """Every call-graph cycle reachable from roots must pass through a function that bounds an integer
    depth/fuel parameter at its recursive call sites."""
    reach = P.reachable_from(roots)
    if crate:
        reach = {p for p in reach if P.F.bodies[p]['crate'] == crate}
    cg = P.callgraph()
    n = 0
    for comp in P.sccs(reach):
        cs = set(comp)
        cyclic = len(comp) > 1 or comp[0] in cg.get(comp[0], ())
        if not cyclic:
            continue
        n += 1
        guarded = set()
        for f in comp:
            B = P.B(f)
            R = Ranges(B)
            params = [i for i in range(1, B.b['argc'] + 1) if ty_range(B.local_ty(i)) and B.local_ty(i) not in ('bool', 'u8')]
            if not params:
                continue
            rec_calls = [(bb, t) for bb, t in B.calls() if any(c in cs for c in callee_names(t))]
            if not rec_calls:
                continue
            for p in params:
                okp = True
                for bb, t in rec_calls:
                    rng = R.range_of({'k': 'cp', 'pl': {'l': p}}, bb)
                    tr = ty_range(B.local_ty(p))
                    if not (rng[1] < tr[1] and rng[1] <= 1 << 20) and not (rng[0] > tr[0]):
                        okp = False
                if okp:
                    guarded.add(f)
        # does a cycle survive without the guarded functions?
        rest = cs - guarded
        survives = False
        for comp2 in P.sccs(rest):
            if len(comp2) > 1 or comp2[0] in cg.get(comp2[0], ()):
                survives = True
        ext = sorted(f for f in comp if any(f in cg.get(q, ()) for q in reach if q not in cs) or f in roots)
        entry = ext[0] if ext else sorted(comp)[0]
        inst = '%s (+%d functions)' % (entry, len(comp) - 1)
        if not survives:
            ctx.ok(rule, inst, 'every cycle passes a depth/fuel guard in %s' % sorted(guarded)[:3])
        else:
            ctx.bad(rule, inst, 'recursion through %d mutually recursive functions (e.g. %s) has no depth limit: nesting depth is bounded only by the input length, so a few tens of kilobytes of nested containers overflow a worker stack'
                    % (len(comp), ', '.join(x.rsplit('::', 1)[1] for x in sorted(comp)[:4])), ctx.where(P.B(entry)), key='%s:%s' % (key_prefix, entry))
    return n


# --------------------------------------------------------------- FIELDSET ----

def _places_of_stmt(st):
    out = []
    if st['k'] != '=':
        return out
    out.append(st['pl'])
    rv = st['rv']
    k = rv['k']
    if k in ('ref', 'rawptr', 'discr'):
        out.append(rv['pl'])
    for key in ('op', 'a', 'b'):
        o = rv.get(key)
        if isinstance(o, dict) and o.get('k') in ('cp', 'mv'):
            out.append(o['pl'])
    for o in rv.get('ops', []) or []:
        if o.get('k') in ('cp', 'mv'):
            out.append(o['pl'])
    return out


def fields_touched(B, adt):
    """set of field names of `adt` that body B accesses (reads or writes) through place projections"""
    out = set()
    for blk in B.blocks:
        pls = []
        for st in blk['s']:
            pls += _places_of_stmt(st)
        t = blk['t']
        if t['k'] == 'call':
            for a in t['args']:
                if a['k'] in ('cp', 'mv'):
                    pls.append(a['pl'])
            pls.append(t['dst'])
        elif t['k'] == 'switch' and t['d']['k'] in ('cp', 'mv'):
            pls.append(t['d']['pl'])
        elif t['k'] == 'drop':
            pls.append(t['pl'])
        for pl in pls:
            for e in pl.get('p') or []:
                if isinstance(e, dict) and e.get('adt') == adt and 'n' in e:
                    out.add(e['n'])
    return out


# ------------------------------------------------------------ comparison shape ----
CMP_NAMES = ('cmp', 'partial_cmp', 'eq', 'ne', 'lt', 'le', 'gt', 'ge', 'total_cmp')


def _tuple_operand(B, op, depth=0):
    """elements of the tuple literal an operand refers to (through reference chains), else None"""
    for _ in range(6):
        o = B.origin(op)
        if o[0] == 'agg' and o[1].get('ak') == 'tuple':
            return o[1]['ops']
        if o[0] == 'ref' and isinstance(o[1], dict) and not [x for x in o[1].get('p', []) if x != '*']:
            op = {'k': 'cp', 'pl': {'l': o[1]['l']}}
            continue
        return None
    return None


def comparator_calls(B):
    """(bb, name, [canon of the two operands], where) for every two-operand comparison in B: comparator method calls,
    the repo's compare_* helpers and primitive comparison operators"""
    out = []
    for bb, t in B.calls():
        g, r = callee_of(t)
        nm = (g or '').rsplit('::', 1)[-1]
        if len(t['args']) >= 2 and (nm in CMP_NAMES or nm.startswith('compare_')):
            ta, tb = _tuple_operand(B, t['args'][0]), _tuple_operand(B, t['args'][1])
            if ta is not None and tb is not None and len(ta) == len(tb):
                # (a.x, a.y).cmp(&(b.x, b.y)): the tuple comparison is the lexicographic chain of its element comparisons
                for i, (x, y) in enumerate(zip(ta, tb)):
                    out.append((bb, '%s.%d' % (nm, i), [canon(B, x), canon(B, y)]))
                continue
            out.append((bb, nm, [canon(B, t['args'][0]), canon(B, t['args'][1])]))
    for bb, j, st in B.stmts():
        if st['k'] == '=' and st['rv']['k'] == 'bin' and st['rv']['op'] in ('Eq', 'Ne', 'Lt', 'Le', 'Gt', 'Ge', 'Cmp'):
            out.append((bb, st['rv']['op'], [canon(B, st['rv']['a']), canon(B, st['rv']['b'])]))
    return out


def _last_named_field(c):
    """last struct-field name on the projection path of a canonical place (None for tuple/variant positions and non-places)"""
    if not (isinstance(c, tuple) and c and c[0] == 'place'):
        return None
    for x in reversed(c[2]):
        if isinstance(x, str) and x and not x[0].isdigit() and not x.startswith('as:') and x not in ('*',):
            return x
        if isinstance(x, str) and (x[0].isdigit() or x.startswith('as:')):
            return None
    return None


def check_self_compare(ctx, B, rule):
    """A comparison whose two operands are the same value is constant: `a.f.cmp(&a.f)` where `a.f.cmp(&b.f)` was meant."""
    n = 0
    seen = {}
    for bb, nm, (ca, cb) in comparator_calls(B):
        n += 1
        if ca[0] == 'const' or cb[0] == 'const':
            continue
        if ca == cb:
            inst = uniq_key(seen, '%s:%s(%s)' % (B.path, nm, describe(B, ca)))
            ctx.bad(rule, inst, 'compares %s with itself: the result is constant, so two values that differ in it are ordered/equated as if they did not' % describe(B, ca),
                    ctx.where(B, bb), key='SELFCMP:%s' % inst)
            continue
        fa, fb = _last_named_field(ca), _last_named_field(cb)
        if fa and fb and fa != fb:
            inst = uniq_key(seen, '%s:%s(%s,%s)' % (B.path, nm, describe(B, ca), describe(B, cb)))
            ctx.bad(rule, inst, 'compares the field `%s` of one value with the field `%s` of the other' % (fa, fb), ctx.where(B, bb), key='CMPFIELDS:%s' % inst)
    return n


# ------------------------------------------------------ comparison orientation ----
def operand_side(B, op, sides, upmap=None, depth=0):
    """Which of the function's two compared parameters does operand `op` derive from? Follows receiver chains
    (x.f.iter().rev() -> x) and, inside a closure, the captured variables. sides: {arg index: 'a'|'b'};
    upmap (closures): {upvar index as str: 'a'|'b'}."""
    if depth > 12:
        return None
    root = receiver_root(B, op)[0]
    if root is None:
        return None
    if root[0] == 'arg':
        if upmap is not None:
            projs = [x for x in (root[2] if len(root) > 2 else ()) if isinstance(x, str)]
            for x in projs:
                x = x.split(':')[-1]
                if x in upmap:
                    return upmap[x]
            return None
        return sides.get(root[1])
    if root[0] == 'call':
        t = B.blocks[root[2]]['t']
        if t['k'] == 'call' and t['args']:
            return operand_side(B, t['args'][0], sides, upmap, depth + 1)
    return None


def operand_chain(B, op, depth=0):
    """names of the calls an operand's value passes through on its way from the parameter (innermost last)"""
    out = []
    while depth < 12:
        depth += 1
        root = receiver_root(B, op)[0]
        if root is None or root[0] != 'call':
            break
        t = B.blocks[root[2]]['t']
        out.append(root[1])
        if t['k'] != 'call' or not t['args']:
            break
        op = t['args'][0]
    return out


def orientation_of_region(P, B, region, sides):
    """For the blocks `region` of a two-parameter comparison function: list of
    (body, bb, name, orientation, chains) for every comparison reachable there (closures created in the region
    included); orientation is +1 when the comparison is a-vs-b after all enclosing Ordering::reverse calls,
    -1 when it is b-vs-a, None when the operands could not be attributed."""
    out = []
    revs = [(bb, t) for bb, t in B.calls() if bb in region and (callee_of(t)[0] or '').endswith('Ordering::reverse')]

    def flips(local):
        d = B.derived_locals([local])
        n = 0
        for bb, t in revs:
            if t['args'] and any(l in d or l == local for l in B._op_locals(t['args'][0])):
                n += 1
        return n
    for bb, nm, _ in comparator_calls(B):
        if bb not in region:
            continue
        t = B.blocks[bb]['t']
        if t['k'] != 'call':
            continue
        sa, sb = operand_side(B, t['args'][0], sides), operand_side(B, t['args'][1], sides)
        base = 1 if (sa, sb) == ('a', 'b') else -1 if (sa, sb) == ('b', 'a') else None
        o = None if base is None else base * (-1) ** flips(t['dst']['l'])
        out.append((B, bb, nm, o, (operand_chain(B, t['args'][0]), operand_chain(B, t['args'][1]))))
    for bb in sorted(region):
        for st in B.blocks[bb]['s']:
            if st['k'] == '=' and st['rv']['k'] == 'agg' and st['rv']['ak'] == 'closure':
                CB = P.B(st['rv']['def'])
                if CB is None:
                    continue
                upmap = {}
                for i, o_ in enumerate(st['rv']['ops']):
                    s_ = operand_side(B, o_, sides)
                    if s_:
                        upmap[str(i)] = s_
                f = flips(st['pl']['l'])
                for cbb, nm, _ in comparator_calls(CB):
                    t = CB.blocks[cbb]['t']
                    if t['k'] != 'call':
                        continue
                    sa, sb = operand_side(CB, t['args'][0], {}, upmap), operand_side(CB, t['args'][1], {}, upmap)
                    base = 1 if (sa, sb) == ('a', 'b') else -1 if (sa, sb) == ('b', 'a') else None
                    inner = [(b2, t2) for b2, t2 in CB.calls() if (callee_of(t2)[0] or '').endswith('Ordering::reverse')]
                    dd = CB.derived_locals([t['dst']['l']])
                    fi = sum(1 for b2, t2 in inner if t2['args'] and any(l in dd for l in CB._op_locals(t2['args'][0])))
                    o = None if base is None else base * (-1) ** (f + fi)
                    out.append((CB, cbb, nm, o, (operand_chain(CB, t['args'][0]), operand_chain(CB, t['args'][1]))))
    return out


# ------------------------------------------------------------ key dependencies ----
def key_fields(P, B, key_op, ty):
    """Which fields of struct `ty` does the value of operand `key_op` depend on?  Backward slice inside body B
    (a definition contributes when the key lies in its forward slice); a call to a repository function that is
    handed a `ty` contributes the fields that function's bodies read.  Returns (fields, helper functions)."""
    targets = set(B._op_locals(key_op))
    o = B.origin(key_op)
    if o[0] == 'call':
        targets.add(B.blocks[o[2]]['t']['dst']['l'])
    fields, helpers = set(), set()
    short = ty.rsplit('::', 1)[1]

    def place_fields(pl):
        return {e['n'] for e in (pl.get('p') or []) if isinstance(e, dict) and e.get('adt') == ty and 'n' in e}
    cache = {}

    def reaches(d):
        if d not in cache:
            cache[d] = bool((B.derived_locals([d]) | {d}) & targets)
        return cache[d]
    for bb in sorted(B.live_blocks()):
        blk = B.blocks[bb]
        for st in blk['s']:
            if st['k'] != '=' or not reaches(st['pl']['l']):
                continue
            for pl in _places_of_stmt(st)[1:]:
                fields |= place_fields(pl)
        t = blk['t']
        if t['k'] == 'call' and reaches(t['dst']['l']):
            for a in t['args']:
                if a['k'] in ('cp', 'mv'):
                    fields |= place_fields(a['pl'])
            if any(short in x for x in (t.get('aty') or [])):
                for n in callee_names(t):
                    if any(q == n or q.startswith(n + '::{') for q in P.F.bodies) and not n.startswith(ty):
                        helpers.add(n)
                        for HB in bodies_of_fn(P, n):
                            fields |= fields_touched(HB, ty)
    return fields, helpers


# ------------------------------------------------------- truncating bigint reads ----
def check_bigint_truncation(ctx, P, rule):
    """bigint_to_u64 reads only the 8 low-order digits. Every caller must have established that the operand has at
    most 8 digits (on the path to the call), otherwise two different big integers are treated as the same number."""
    n = 0
    for mod in ('term', 'borrowed'):
        fn = 'erltf::%s::bigint_to_u64' % mod
        if P.B(fn) is None:
            # the 8-digit reader may have another name and guard itself: a function of the module that takes a BigInt and answers Option<u64>,
            # reading the digits only where their count is known to be at most 8
            for q, b_ in sorted(P.F.bodies.items()):
                if not (q.startswith('erltf::%s::' % mod) and b_['kind'] in ('Fn', 'AssocFn')
                        and any('BigInt' in (l_.get('ty') or '') for l_ in b_['locals'][1:b_.get('argc', 0) + 1])):
                    continue
                QB = P.B(q)
                RQ = Ranges(QB)
                # where digits are folded into a 64-bit word: `byte << (8 * i)` (the reader may have been spliced into its callers)
                reads = sorted({bb for bb, j, st in QB.stmts() if st['k'] == '=' and st['rv']['k'] == 'bin' and st['rv']['op'].startswith('Shl') and st['rv'].get('ty') == 'u64'})
                if not reads:
                    continue
                n += 1
                good = all(any(isinstance(k, tuple) and k and k[0] == 'len' and v[1] <= 8 and 'digits' in str(k) for k, v in RQ.facts_at(bb).items()) for bb in reads)
                inst = '%s:self-guarded' % q
                if good:
                    ctx.ok(rule, inst, 'the reader itself answers None for more than 8 digits: every digit access lies behind len <= 8', ctx.where(QB, reads[0]))
                else:
                    ctx.bad(rule, inst, '%s folds the digits of a big integer into a u64 without establishing that there are at most 8 of them' % q.rsplit('::', 1)[1], ctx.where(QB, reads[0]),
                            key='CAST:%s:digits-unguarded' % q)
            continue
        seen = {}
        for c, bb, t in P.callers_of(lambda nm, fn=fn: nm == fn):
            B = P.B(c)
            R = Ranges(B)
            n += 1
            a = canon(B, t['args'][0])
            inst = uniq_key(seen, '%s->bigint_to_u64(%s)' % (c, describe(B, a)))
            proven = False
            for k, v in R.facts_at(bb).items():
                if isinstance(k, tuple) and k and k[0] == 'len' and v[1] <= 8 and 'digits' in str(k) and str(a) in str(k):
                    proven = True
            if proven:
                ctx.ok(rule, inst, 'the operand is known to have at most 8 digits here', ctx.where(B, bb))
            else:
                ctx.bad(rule, inst, 'bigint_to_u64 keeps only the 8 low-order digits, and %s is not known to have at most 8 digits at this call: big integers that agree modulo 2^64 are compared as equal '
                        '(as map keys: merged)' % describe(B, a), ctx.where(B, bb), key='CAST:%s:bigint_to_u64-unguarded' % c)
    return n


# ------------------------------------------------------------- bigint digit order ----
def check_bigint_endianness(ctx, P, rule, crates=('erltf', 'erltf_serde', 'edp_elixir_terms', 'edp_client', 'edp_node')):
    """BigInt.digits is the wire order of SMALL_BIG_EXT / LARGE_BIG_EXT: least significant byte first.  Every function
    that turns the digits into a machine integer (or a machine integer into digits) must read them that way:
    from_le_bytes / to_le_bytes, `byte << (i * 8)` by position, or an accumulate-and-shift fold over the REVERSED digits."""
    BIG = 'erltf::types::BigInt'
    groups = {}
    for p in P.F.bodies:
        if P.F.bodies[p]['crate'] not in crates or P.F.bodies[p]['kind'] not in ('Fn', 'AssocFn', 'Closure'):
            continue
        groups.setdefault(p.split('::{')[0], []).append(p)
    n = 0
    for base, paths in sorted(groups.items()):
        bodies = [P.B(p) for p in paths if P.B(p) is not None]
        touches = any('digits' in fields_touched(B, BIG) for B in bodies)
        writes_big = any(any(n_.endswith('BigInt::new') for n_ in callee_names(t)) for B in bodies for _, t in B.calls())
        if not touches and not writes_big:
            continue
        calls = [(B, bb, t, (callee_of(t)[0] or '')) for B in bodies for bb, t in B.calls()]
        names = [g.rsplit('::', 1)[-1] for _, _, _, g in calls]
        has_rev = any(x in ('rev', 'reverse', 'rposition', 'rfold', 'next_back') for x in names)
        verdicts = []
        for B, bb, t, g in calls:
            nm = g.rsplit('::', 1)[-1]
            if nm in ('from_be_bytes', 'to_be_bytes') and ('num::<impl u' in g or 'num::<impl i' in g):
                if touches and not has_rev:
                    verdicts.append(('bad', B, bb, '%s on the digit bytes: the digits are least-significant first, so the value is read byte-swapped (0x80000000 becomes 0x80)' % nm))
            elif nm in ('from_le_bytes', 'to_le_bytes') and ('num::<impl u' in g or 'num::<impl i' in g):
                verdicts.append(('ok', B, bb, nm))
        for B in bodies:
            for bb, j, st in B.stmts():
                if st['k'] == '=' and st['rv']['k'] == 'bin' and st['rv']['op'] in ('Shl', 'ShlUnchecked'):
                    amount = canon(B, st['rv']['b'])
                    if amount == ('const', 8) and touches:
                        # accumulate-and-shift: acc = (acc << 8) | d  -> needs the most significant digit first
                        if has_rev:
                            verdicts.append(('ok', B, bb, 'accumulate-and-shift over the reversed digits'))
                        else:
                            verdicts.append(('bad', B, bb, 'accumulate-and-shift (`acc << 8 | digit`) over the digits in stored order: that treats the first (least significant) digit as the most significant one'))
                    elif isinstance(amount, tuple) and amount and amount[0] == 'bin' and amount[1] in ('Mul', 'MulUnchecked') and ('const', 8) in amount and touches:
                        verdicts.append(('ok', B, bb, 'digit shifted by 8 x its position'))
        if not verdicts:
            continue
        n += 1
        bad = [v for v in verdicts if v[0] == 'bad']
        if bad:
            _, B, bb, why = bad[0]
            ctx.bad(rule, base, why, ctx.where(B, bb), key='SHAPE:%s:bigint-digit-order' % base)
        else:
            ctx.ok(rule, base, 'little-endian digit handling (%s)' % '; '.join(sorted({v[3] for v in verdicts})), ctx.where(verdicts[0][1], verdicts[0][2]))
    return n


# ---------------------------------------------------------------- newtype wrappers ----
def check_newtype_verbatim(ctx, P, rule, types):
    """`types`: full paths of tuple newtypes over an integer (edp_client::types::Creation, ::SequenceId). Every function that
    builds one from an integer parameter stores the parameter unchanged (no mask, shift, arithmetic or narrowing cast),
    or delegates to another constructor of the type with the parameter unchanged."""
    n = 0
    for ty in types:
        fns = sorted(q for q in P.F.bodies if P.F.bodies[q]['kind'] in ('Fn', 'AssocFn') and (q.startswith(ty + '::') or (q.startswith('<' + ty + ' as ') and 'From<' in q)))
        for q in fns:
            B = P.B(q)
            for bb, j, st in B.stmts():
                if not (st['k'] == '=' and st['rv']['k'] == 'agg' and st['rv'].get('adt') == ty and st['rv']['ops']):
                    continue
                n += 1
                c = canon(B, st['rv']['ops'][0])
                cur = c
                narrowing = False
                while isinstance(cur, tuple) and cur and cur[0] == 'cast':
                    cur = cur[-1] if isinstance(cur[-1], tuple) else cur[1]
                inst = '%s:%s' % (ty.rsplit('::', 1)[1], q.rsplit('::', 1)[1] if not q.startswith('<') else 'From')
                if isinstance(cur, tuple) and cur and cur[0] == 'arg':
                    ctx.ok(rule, inst, 'stores its argument unchanged', ctx.where(B, bb))
                elif isinstance(cur, tuple) and cur and cur[0] in ('bin', 'un'):
                    ctx.bad(rule, inst, '%s does not store the value it is given but %s: different inputs yield the same %s' % (q.rsplit('::', 1)[1], describe(B, c), ty.rsplit('::', 1)[1]),
                            ctx.where(B, bb), key='PROV:%s:value-modified' % q)
                else:
                    ctx.undecided(rule, inst, 'stored value %s not recognised' % describe(B, c))
            n += check_casts(ctx, B, rule, include_float=False)
    return n


# ------------------------------------------------------------------ ERR: swallowed errors ----
SWALLOWERS = ('ok', 'unwrap_or', 'unwrap_or_default', 'unwrap_or_else', 'map_or', 'map_or_else')
WORKSPACE = ('erltf::', 'erltf_serde::', 'edp_client::', 'edp_node::', 'edp_elixir_terms::', '<erltf', '<edp_')


def _fallible_source(P, B, op, depth=0, workspace=None):
    """name of the workspace function whose Result this operand is (through .await and reference chains), else None"""
    o = B.origin(op)
    for _ in range(6):
        if not isinstance(o, tuple) or not o:
            return None
        if o[0] == 'call':
            n = str(o[1])
            sig = P.F.fns.get(n)
            if sig is not None and n.startswith(workspace or WORKSPACE):
                return n
            return None
        if o[0] in ('awaited', 'awaited_value', 'payload', 'try', 'proj', 'cast') and len(o) > 1 and isinstance(o[1], tuple):
            o = o[1]
            continue
        return None
    return None


def check_error_swallow(ctx, P, rule, scope, key_prefix='ERR', workspace=None):
    """In functions that can themselves report failure (return Result), the Result of one of the repository's own fallible
    functions is not converted into "nothing" or a default (ok(), unwrap_or*, map_or*): the caller would carry on with a value the
    callee never produced.  Functions returning Option are exempt (there `.ok()?` IS the rejection).  Zero instances are expected;
    the family is exercised on the positive fixture every run."""
    n = 0
    bad = 0
    for q in sorted(P.F.bodies):
        b_ = P.F.bodies[q]
        if not any(x in q for x in scope) or '::tests::' in q:
            continue
        B = P.B(q)
        if B is None:
            continue
        owner = q.split('::{')[0]
        osig = P.F.fns.get(owner)
        ret = (osig or {}).get('output', '') if osig else b_['locals'][0]['ty']
        if 'Result<' not in str(ret) and 'Result<' not in str(b_['locals'][0]['ty']):
            # closures of async fns: look at the enclosing function's declared output
            if not (osig and 'Result<' in str(osig.get('output', ''))):
                continue
        for bb, t in B.calls():
            nm = callee_of(t)[0] or ''
            last = nm.rsplit('::', 1)[-1]
            if not (nm.startswith('core::result::Result') and last in SWALLOWERS and t['args']):
                continue
            src = _fallible_source(P, B, t['args'][0], workspace=workspace)
            if src is None:
                continue
            n += 1
            bad += 1
            ctx.bad(rule, '%s:%s(%s)' % (owner.rsplit('::', 1)[-1], last, src.rsplit('::', 1)[-1]),
                    '%s turns the Result of %s into a value with %s(): its error is dropped and the function goes on as if the callee had produced that value'
                    % (owner.rsplit('::', 1)[-1], src.rsplit('::', 2)[-2] + '::' + src.rsplit('::', 1)[-1], last), ctx.where(B, bb), key='%s:%s:%s-of-%s' % (key_prefix, owner, last, src.rsplit('::', 1)[-1]))
    if bad == 0:
        ctx.ok(rule, 'none', 'no Result of a repository function is turned into a default in %s' % ', '.join(sorted(scope)))
    return n


# ------------------------------------------------------------------ sibling constructors ----
def ctor_fields(P, q, adt):
    """{field: description of the value} for the struct literal of `adt` that function q returns"""
    B = P.B(q)
    if B is None:
        return None
    out = None
    for bb, j, st in B.stmts():
        if st['k'] == '=' and st['rv']['k'] == 'agg' and st['rv'].get('adt') == adt and st['rv'].get('fn'):
            if st['pl']['l'] == 0 or 0 in B.derived_locals([st['pl']['l']]):
                out = {n: describe(B, canon(B, o)) for n, o in zip(st['rv']['fn'], st['rv']['ops'])}
    return out


def check_sibling_ctors(ctx, P, rule, adt, ctors, allowed):
    """Constructors of one type are copies of each other that are meant to differ in one thing: every other field must be
    initialised alike (a second constructor that forgets, or re-derives, a field drifts from the first)."""
    base = ctor_fields(P, ctors[0], adt)
    short = adt.rsplit('::', 1)[-1]
    if base is None:
        ctx.undecided(rule, short, 'struct literal of %s not found in %s' % (short, ctors[0]))
        return 0
    n = 0
    for q in ctors[1:]:
        other = ctor_fields(P, q, adt)
        inst = '%s:%s~%s' % (short, ctors[0].rsplit('::', 1)[-1], q.rsplit('::', 1)[-1])
        if other is None:
            # delegates to another constructor: nothing to compare
            ctx.ok(rule, inst, '%s builds no literal of its own (delegates)' % q.rsplit('::', 1)[-1])
            continue
        n += 1
        diff = sorted(k for k in set(base) | set(other) if base.get(k) != other.get(k))
        extra = [k for k in diff if k not in allowed]
        if extra:
            ctx.bad(rule, inst, 'the two constructors also differ in %s (%s vs %s); they are meant to differ only in %s' % (
                extra, {k: base.get(k) for k in extra}, {k: other.get(k) for k in extra}, sorted(allowed)), ctx.where(P.B(q)), key='TWIN:%s:ctor-fields:%s' % (q, '+'.join(extra)))
        else:
            ctx.ok(rule, inst, 'differ only in %s' % (diff or 'nothing'), ctx.where(P.B(q)))
    return n
