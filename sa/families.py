"""Rule families shared by the property modules (CAST, PANIC, ALLOC, ...)."""
from .core import callee_of, callee_names, is_call_to, fold
from .ranges import Ranges, canon, ty_range, INT, INF, LEN_MAX

F64_EXACT = (-(2**53), 2**53)
F32_EXACT = (-(2**24), 2**24)


def describe(B, c):
    """Readable, line-number-free description of a canonical value."""
    k = c[0]
    if k == 'const':
        return str(c[1])
    if k == 'arg':
        return B.local_name(c[1]) or 'arg%d' % c[1]
    if k == 'local':
        return B.local_name(c[1]) or 'tmp'
    if k == 'place':
        return describe(B, c[1]) + ''.join(
            '.' + (p if isinstance(p, str) else '[' + (describe(B, p[1]) if p[0] == 'idx' else str(p[1])) + ']')
            for p in c[2])
    if k == 'len':
        return 'len(%s)' % describe(B, c[1])
    if k == 'remaining':
        return 'remaining(%s)' % describe(B, c[1])
    if k == 'cast':
        return '(%s as %s)' % (describe(B, c[2]), c[1])
    if k == 'bin':
        return '%s(%s,%s)' % (c[1], describe(B, c[2]), describe(B, c[3]))
    if k == 'un':
        return '%s(%s)' % (c[1], describe(B, c[2]))
    if k in ('min', 'max'):
        return '%s(%s,%s)' % (k, describe(B, c[1]), describe(B, c[2]))
    if k == 'call':
        n = c[1] or '?'
        return 'call(%s)' % n.split('::')[-1]
    if k == 'discr':
        return 'discr(%s)' % describe(B, c[1])
    return k


def uniq_key(seen, key):
    n = seen.get(key, 0) + 1
    seen[key] = n
    return key if n == 1 else '%s#%d' % (key, n)


def check_casts(ctx, B, rule, include_float=True, reviewed=None):
    """CAST: every lossy integer `as` cast in body B is discharged by the value's range."""
    reviewed = reviewed or {}
    R = Ranges(B)
    seen = {}
    n = 0
    for bb, j, st in B.stmts():
        if st['k'] != '=' or st['rv']['k'] != 'cast':
            continue
        rv = st['rv']
        ck = rv['ck']
        if ck == 'IntToInt':
            fr, to = ty_range(rv['from']), ty_range(rv['to'])
        elif ck == 'IntToFloat' and include_float:
            fr = ty_range(rv['from'])
            to = F64_EXACT if rv['to'] == 'f64' else F32_EXACT
        else:
            continue
        if fr is None or to is None:
            continue      # enum discriminant casts etc.
        if fr[0] >= to[0] and fr[1] <= to[1]:
            continue      # widening: not an obligation
        n += 1
        c = canon(B, rv['op'])
        inst = uniq_key(seen, '%s:%s(%s->%s)' % (B.path, describe(B, c), rv['from'], rv['to']))
        key = '%s:%s' % (rule, inst)
        rng = R.range_of(rv['op'], bb)
        where = ctx.where(B, ln=st['ln'])
        if rng[0] >= to[0] and rng[1] <= to[1]:
            ctx.ok(rule, inst, 'value range [%s, %s] fits %s' % (rng[0], rng[1], rv['to']), where)
        elif inst in reviewed:
            ctx.ok(rule, inst, 'reviewed: ' + reviewed[inst], where)
        elif R.mentions(bb, c):
            ctx.undecided(rule, inst, 'a dominating condition mentions the value but its range [%s, %s] '
                          'could not be shown to fit %s' % (rng[0], rng[1], rv['to']), where)
        else:
            ctx.bad(rule, inst, 'lossy cast %s -> %s of %s: value range [%s, %s] does not fit and no dominating '
                    'guard mentions the value' % (rv['from'], rv['to'], describe(B, c), rng[0], rng[1]), where, key)
    return n
