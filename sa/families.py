"""Rule families shared by the property modules (CAST, PANIC, ALLOC, ...)."""
from .core import callee_of, callee_names, is_call_to, fold
from .ranges import Ranges, canon, ty_range, INT, INF, LEN_MAX

F64_EXACT = (-(2**53), 2**53)
F32_EXACT = (-(2**24), 2**24)


def describe(B, c):
    """Readable, line-number-free description of a canonical value."""
    k = c[0]
    if k == 'const':
        return str(c[1])
    if k == 'arg':
        return B.local_name(c[1]) or 'arg%d' % c[1]
    if k == 'local':
        return B.local_name(c[1]) or 'tmp'
    if k == 'place':
        return describe(B, c[1]) + ''.join(
            '.' + (p if isinstance(p, str) else '[' + (describe(B, p[1]) if p[0] == 'idx' else str(p[1])) + ']')
            for p in c[2])
    if k == 'len':
        return 'len(%s)' % describe(B, c[1])
    if k == 'remaining':
        return 'remaining(%s)' % describe(B, c[1])
    if k == 'cast':
        return '(%s as %s)' % (describe(B, c[2]), c[1])
    if k == 'bin':
        return '%s(%s,%s)' % (c[1], describe(B, c[2]), describe(B, c[3]))
    if k == 'un':
        return '%s(%s)' % (c[1], describe(B, c[2]))
    if k in ('min', 'max'):
        return '%s(%s,%s)' % (k, describe(B, c[1]), describe(B, c[2]))
    if k == 'call':
        n = (c[1] or '?').split('::')[-1]
        try:
            from .ranges import call_args_desc
            args = call_args_desc(B, c)
            if len(args) <= 2:
                return '%s(%s)' % (n, ','.join(describe(B, a) if a[0] != 'call' else 'call' for a in args))
        except Exception:
            pass
        return 'call(%s)' % n
    if k == 'discr':
        return 'discr(%s)' % describe(B, c[1])
    return k


def uniq_key(seen, key):
    n = seen.get(key, 0) + 1
    seen[key] = n
    return key if n == 1 else '%s#%d' % (key, n)


def check_casts(ctx, B, rule, include_float=True, reviewed=None):
    """CAST: every lossy integer `as` cast in body B is discharged by the value's range."""
    reviewed = reviewed or {}
    R = Ranges(B)
    seen = {}
    n = 0
    for bb, j, st in B.stmts():
        if st['k'] != '=' or st['rv']['k'] != 'cast':
            continue
        rv = st['rv']
        ck = rv['ck']
        if ck == 'IntToInt':
            fr, to = ty_range(rv['from']), ty_range(rv['to'])
        elif ck == 'IntToFloat' and include_float:
            fr = ty_range(rv['from'])
            to = F64_EXACT if rv['to'] == 'f64' else F32_EXACT
        else:
            continue
        if fr is None or to is None:
            continue      # enum discriminant casts etc.
        if fr[0] >= to[0] and fr[1] <= to[1]:
            continue      # widening: not an obligation
        n += 1
        c = canon(B, rv['op'])
        inst = uniq_key(seen, '%s:%s(%s->%s)' % (B.path, describe(B, c), rv['from'], rv['to']))
        key = '%s:%s' % (rule, inst)
        rng = R.range_of(rv['op'], bb)
        where = ctx.where(B, ln=st['ln'])
        if rng[0] >= to[0] and rng[1] <= to[1]:
            ctx.ok(rule, inst, 'value range [%s, %s] fits %s' % (rng[0], rng[1], rv['to']), where)
        elif inst in reviewed:
            ctx.ok(rule, inst, 'reviewed: ' + reviewed[inst], where)
        elif c not in R.facts_at(bb) and R.mentions(bb, c):
            ctx.undecided(rule, inst, 'a dominating condition mentions the value but its range [%s, %s] '
                          'could not be shown to fit %s' % (rng[0], rng[1], rv['to']), where)
        else:
            ctx.bad(rule, inst, 'lossy cast %s -> %s of %s: value range [%s, %s] does not fit and no dominating '
                    'guard mentions the value' % (rv['from'], rv['to'], describe(B, c), rng[0], rng[1]), where, key)
    return n


# ------------------------------------------------------------------ LOCK ----

def _moved_locals(op):
    if op['k'] == 'mv':
        return [op['pl']['l']]
    return []


def guard_flow(B, acquire_bb):
    """Forward must-dataflow of 'which locals hold the guard returned by the call
    terminating acquire_bb'.  Returns (state_in, state_before_term): dict bb -> frozenset
    of holder locals (missing key = not reachable from the acquisition).
    The guard moves with `move` operands (assignments, aggregates, call arguments
    -> call destination) and dies at Drop terminators / mem::drop of a holder."""
    t0 = B.blocks[acquire_bb]['t']
    start = t0.get('t')
    if start is None:
        return {}, {}
    init = frozenset([t0['dst']['l']])
    state_in = {start: init}
    before_term = {}
    work = [start]
    while work:
        bb = work.pop()
        H = set(state_in[bb])
        blk = B.blocks[bb]
        for st in blk['s']:
            if st['k'] != '=':
                continue
            rv = st['rv']
            moved = []
            if rv['k'] == 'use':
                moved = _moved_locals(rv['op'])
            elif rv['k'] == 'agg':
                for o in rv['ops']:
                    moved += _moved_locals(o)
            elif rv['k'] == 'cast':
                moved = _moved_locals(rv['op'])
            hit = [m for m in moved if m in H]
            if hit:
                for m in hit:
                    H.discard(m)
                H.add(st['pl']['l'])
            elif not st['pl'].get('p') and st['pl']['l'] in H and rv['k'] != 'ref':
                # holder overwritten: old guard dropped by the assignment
                H.discard(st['pl']['l'])
        before_term[bb] = frozenset(H)
        t = blk['t']
        out = set(H)
        if t['k'] == 'drop':
            l = t['pl']['l']
            if l in out and not t['pl'].get('p'):
                out.discard(l)
        elif t['k'] == 'call':
            moved = []
            for a in t['args']:
                moved += _moved_locals(a)
            hit = [m for m in moved if m in out]
            if hit:
                for m in hit:
                    out.discard(m)
                if not is_call_to(t, 'core::mem::drop'):
                    out.add(t['dst']['l'])
        elif t['k'] == 'ret':
            pass
        for s in B.succ(bb):
            new = frozenset(out)
            if s in state_in:
                meet = state_in[s] & new
                if meet != state_in[s]:
                    state_in[s] = meet
                    work.append(s)
            else:
                state_in[s] = new
                work.append(s)
    return state_in, before_term


# ------------------------------------------------------------ Display texts ----

def decode_fmt_template(bs):
    """Decode this compiler's format-template byte string into [('lit', text) | ('hole',) | ('opaque',)].
    Observed encoding (calibrated by fixtures/positive: "{}{}" == c0 c0 00): a byte < 0x80 is the
    length of a literal piece that follows, 0xc0 is a default placeholder, 0x00 terminates.  Anything
    else is reported as opaque (a placeholder with formatting options, followed by option bytes)."""
    out = []
    i = 0
    n = len(bs)
    while i < n:
        b = bs[i]
        if b == 0:
            break
        if b < 0x80:
            out.append(('lit', bytes(bs[i + 1:i + 1 + b]).decode('utf-8', 'replace')))
            i += 1 + b
        elif b == 0xc0:
            out.append(('hole',))
            i += 1
        else:
            out.append(('opaque',))
            # options follow; we cannot know their length: stop decoding literal text here
            rest = bytes(bs[i + 1:])
            # salvage printable runs as literal hints
            out.append(('rest', rest.decode('latin-1')))
            break
    return out


def display_table(P, adt_path):
    """variant name -> list of pieces of its Display text, read from `<ADT as Display>::fmt`."""
    from .core import exclusive_blocks
    B = P.B('<%s as core::fmt::Display>::fmt' % adt_path)
    if B is None:
        return None
    adt = P.F.adts.get(adt_path)
    sw = None
    for i in sorted(B.live_blocks()):
        sd = B.switch_on_discr(i)
        if sd and adt_path in sd[1]:
            sw = (i, sd)
            break
    if sw is None:
        return None
    i, (pl, ty, cases, els) = sw
    starts = sorted({b for _, b in cases})
    excl = exclusive_blocks(B, starts)
    table = {}
    for v, b in cases:
        vname = adt['variants'][v]['n']
        pieces = None
        for bb in sorted(excl[b]):
            t = B.blocks[bb]['t']
            if t['k'] != 'call':
                continue
            g, r = callee_of(t)
            if g and g.endswith('Formatter::<\'a>::write_str'):
                o = B.origin(t['args'][1])
                if o[0] == 'const' and isinstance(o[1], str):
                    pieces = [('lit', o[1])]
            if g and g.startswith('core::fmt::Arguments') and g.endswith('::new'):
                cur = t['args'][0]
                bs = None
                for _ in range(6):
                    if cur['k'] == 'c':
                        bs = cur.get('bytes')
                        break
                    d = B.single_def(cur['pl']['l'])
                    if d is None or d[0] != 's':
                        break
                    rv = d[3]['rv']
                    if rv['k'] in ('use', 'cast'):
                        cur = rv['op']
                    elif rv['k'] == 'ref':
                        cur = {'k': 'cp', 'pl': rv['pl']}
                    else:
                        break
                if bs is not None:
                    pieces = decode_fmt_template(bs)
            if g and g.startswith('core::fmt::Arguments') and g.endswith('::from_str'):
                o = B.origin(t['args'][0])
                if o[0] == 'const' and isinstance(o[1], str):
                    pieces = [('lit', o[1])]
        table[vname] = pieces
    return table


def text_may_contain(pieces, needle):
    """'yes' when a literal piece contains needle, 'maybe' when the text is (almost) all holes/opaque,
    'no' otherwise (holes are assumed not to contain the needle when a literal prefix identifies the variant)."""
    if pieces is None:
        return 'maybe'
    lits = [p[1] for p in pieces if p[0] == 'lit']
    if any(needle in l for l in lits):
        return 'yes'
    if any(p[0] == 'rest' and needle in p[1] for p in pieces):
        return 'yes'
    if not lits or all(len(l.strip()) == 0 for l in lits):
        return 'maybe'
    return 'no'


# -------------------------------------------------------- produced error set ----

def bodies_of_fn(P, fn_path):
    """the body of a function and of every closure / async block nested in it"""
    out = []
    for p, b in P.F.bodies.items():
        if (p == fn_path or p.startswith(fn_path + '::{')) and b['kind'] in ('Fn', 'AssocFn', 'Closure', 'SyntheticCoroutineBody', 'InlineConst'):
            out.append(P.B(p))
    return out


def from_impl_variant(P, err_adt, src_ty):
    """variant constructed by `impl From<src_ty> for err_adt`"""
    for imp in P.F.impls:
        tr = imp.get('trait') or ''
        if imp['self'] == err_adt and tr.startswith('core::convert::From<') and tr[len('core::convert::From<'):-1] == src_ty:
            for it in imp['items']:
                B = P.B(it)
                if B is None:
                    continue
                for bb, j, st in B.stmts():
                    if st['k'] == '=' and st['rv']['k'] == 'agg' and st['rv'].get('adt') == err_adt:
                        return st['rv']['var']
    return None


def produced_errors(P, fn_path, err_adt, _seen=None, depth=0):
    """Over-approximate set of err_adt variants a function can return:
    variants constructed in it (and its closures), `?`-conversions From<E>, and, recursively,
    the sets of workspace callees whose declared output mentions err_adt."""
    import re
    if _seen is None:
        _seen = {}
    if fn_path in _seen:
        return _seen[fn_path]
    res = {}
    _seen[fn_path] = res
    if depth > 8:
        return res
    for B in bodies_of_fn(P, fn_path):
        for bb, j, st in B.stmts():
            if st['k'] == '=' and st['rv']['k'] == 'agg' and st['rv'].get('adt') == err_adt:
                res.setdefault(st['rv']['var'], 'constructed in %s' % B.path)
        for bb, t in B.calls():
            g, r = callee_of(t)
            if g == 'core::ops::try_trait::FromResidual::from_residual' and t.get('aty'):
                m = re.match(r'core::result::Result<core::convert::Infallible, (.*)>$', t['aty'][0])
                if m and m.group(1) != err_adt:
                    v = from_impl_variant(P, err_adt, m.group(1))
                    if v:
                        res.setdefault(v, '`?` conversion From<%s>' % m.group(1))
                    else:
                        res.setdefault('?From<%s>' % m.group(1), 'unresolved conversion')
            for n in (g, r):
                if not n:
                    continue
                sig = P.F.fns.get(n)
                if sig and err_adt in sig['output'] and n != fn_path:
                    for v, how in produced_errors(P, n, err_adt, _seen, depth + 1).items():
                        res.setdefault(v, 'from callee %s (%s)' % (n.split('::')[-1], how.split(' (')[0]))
            # fn items used as map_err(Error::Io)
            for a in t['args']:
                if a['k'] == 'c' and 'fn' in a and a['fn'].startswith(err_adt + '::'):
                    res.setdefault(a['fn'].rsplit('::', 1)[1], 'constructor passed as function')
    return res
