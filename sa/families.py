"""Rule families shared by the property modules (CAST, PANIC, ALLOC, ...)."""
from .core import callee_of, callee_names, is_call_to, fold
from .ranges import Ranges, canon, ty_range, INT, INF, LEN_MAX

F64_EXACT = (-(2**53), 2**53)
F32_EXACT = (-(2**24), 2**24)


def describe(B, c):
    """Readable, line-number-free description of a canonical value."""
    k = c[0]
    if k == 'const':
        return str(c[1])
    if k == 'arg':
        return B.local_name(c[1]) or 'arg%d' % c[1]
    if k == 'local':
        return B.local_name(c[1]) or 'tmp'
    if k == 'place':
        return describe(B, c[1]) + ''.join(
            '.' + (p if isinstance(p, str) else '[' + (describe(B, p[1]) if p[0] == 'idx' else str(p[1])) + ']')
            for p in c[2])
    if k == 'len':
        return 'len(%s)' % describe(B, c[1])
    if k == 'remaining':
        return 'remaining(%s)' % describe(B, c[1])
    if k == 'cast':
        return '(%s as %s)' % (describe(B, c[2]), c[1])
    if k == 'bin':
        return '%s(%s,%s)' % (c[1], describe(B, c[2]), describe(B, c[3]))
    if k == 'un':
        return '%s(%s)' % (c[1], describe(B, c[2]))
    if k in ('min', 'max'):
        return '%s(%s,%s)' % (k, describe(B, c[1]), describe(B, c[2]))
    if k == 'call':
        n = (c[1] or '?').split('::')[-1]
        try:
            from .ranges import call_args_desc
            args = call_args_desc(B, c)
            if len(args) <= 2:
                return '%s(%s)' % (n, ','.join(describe(B, a) if a[0] != 'call' else 'call' for a in args))
        except Exception:
            pass
        return 'call(%s)' % n
    if k == 'discr':
        return 'discr(%s)' % describe(B, c[1])
    return k


def uniq_key(seen, key):
    n = seen.get(key, 0) + 1
    seen[key] = n
    return key if n == 1 else '%s#%d' % (key, n)


def check_casts(ctx, B, rule, include_float=True, reviewed=None):
    """CAST: every lossy integer `as` cast in body B is discharged by the value's range."""
    reviewed = reviewed or {}
    R = Ranges(B)
    seen = {}
    n = 0
    for bb, j, st in B.stmts():
        if st['k'] != '=' or st['rv']['k'] != 'cast':
            continue
        rv = st['rv']
        ck = rv['ck']
        if ck == 'IntToInt':
            fr, to = ty_range(rv['from']), ty_range(rv['to'])
        elif ck == 'IntToFloat' and include_float:
            fr = ty_range(rv['from'])
            to = F64_EXACT if rv['to'] == 'f64' else F32_EXACT
        else:
            continue
        if fr is None or to is None:
            continue      # enum discriminant casts etc.
        if fr[0] >= to[0] and fr[1] <= to[1]:
            continue      # widening: not an obligation
        n += 1
        c = canon(B, rv['op'])
        inst = uniq_key(seen, '%s:%s(%s->%s)' % (B.path, describe(B, c), rv['from'], rv['to']))
        key = '%s:%s' % (rule, inst)
        rng = R.range_of(rv['op'], bb)
        where = ctx.where(B, ln=st['ln'])
        if rng[0] >= to[0] and rng[1] <= to[1]:
            ctx.ok(rule, inst, 'value range [%s, %s] fits %s' % (rng[0], rng[1], rv['to']), where)
        elif inst in reviewed:
            ctx.ok(rule, inst, 'reviewed: ' + reviewed[inst], where)
        elif c not in R.facts_at(bb) and R.mentions(bb, c):
            ctx.undecided(rule, inst, 'a dominating condition mentions the value but its range [%s, %s] '
                          'could not be shown to fit %s' % (rng[0], rng[1], rv['to']), where)
        else:
            ctx.bad(rule, inst, 'lossy cast %s -> %s of %s: value range [%s, %s] does not fit and no dominating '
                    'guard mentions the value' % (rv['from'], rv['to'], describe(B, c), rng[0], rng[1]), where, key)
    return n


# ------------------------------------------------------------------ LOCK ----

def _moved_locals(op):
    if op['k'] == 'mv':
        return [op['pl']['l']]
    return []


def guard_flow(B, acquire_bb):
    """Forward must-dataflow of 'which locals hold the guard returned by the call
    terminating acquire_bb'.  Returns (state_in, state_before_term): dict bb -> frozenset
    of holder locals (missing key = not reachable from the acquisition).
    The guard moves with `move` operands (assignments, aggregates, call arguments
    -> call destination) and dies at Drop terminators / mem::drop of a holder."""
    t0 = B.blocks[acquire_bb]['t']
    start = t0.get('t')
    if start is None:
        return {}, {}
    init = frozenset([t0['dst']['l']])
    state_in = {start: init}
    before_term = {}
    work = [start]
    while work:
        bb = work.pop()
        H = set(state_in[bb])
        blk = B.blocks[bb]
        for st in blk['s']:
            if st['k'] != '=':
                continue
            rv = st['rv']
            moved = []
            if rv['k'] == 'use':
                moved = _moved_locals(rv['op'])
            elif rv['k'] == 'agg':
                for o in rv['ops']:
                    moved += _moved_locals(o)
            elif rv['k'] == 'cast':
                moved = _moved_locals(rv['op'])
            hit = [m for m in moved if m in H]
            if hit:
                for m in hit:
                    H.discard(m)
                H.add(st['pl']['l'])
            elif not st['pl'].get('p') and st['pl']['l'] in H and rv['k'] != 'ref':
                # holder overwritten: old guard dropped by the assignment
                H.discard(st['pl']['l'])
        before_term[bb] = frozenset(H)
        t = blk['t']
        out = set(H)
        if t['k'] == 'drop':
            l = t['pl']['l']
            if l in out and not t['pl'].get('p'):
                out.discard(l)
        elif t['k'] == 'call':
            moved = []
            for a in t['args']:
                moved += _moved_locals(a)
            hit = [m for m in moved if m in out]
            if hit:
                for m in hit:
                    out.discard(m)
                if not is_call_to(t, 'core::mem::drop'):
                    out.add(t['dst']['l'])
        elif t['k'] == 'ret':
            pass
        for s in B.succ(bb):
            new = frozenset(out)
            if s in state_in:
                meet = state_in[s] & new
                if meet != state_in[s]:
                    state_in[s] = meet
                    work.append(s)
            else:
                state_in[s] = new
                work.append(s)
    return state_in, before_term
