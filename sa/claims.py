"""Per-property manifest claims (filled in as each rule set goes live)."""
CLAIMED = {}


def claim(pid, technique, text, note, ref):
    CLAIMED[pid] = (technique, text, note, ref)


NOTE = ('Trusted: rustc nightly MIR construction/type resolution, the mirfacts fact model, the rule code, the spec/ tables '
        '(hand-transcribed from the OTP docs), API summaries of external crates (nom, bytes, tokio, flate2, dashmap). '
        'Decides structural clauses only; value-level behaviour, schedules and histories are not decided.')

claim('C08',
      'dispatch-table extraction from resolved MIR matches (enum discriminants, TryFrom<u8>, from_term, to_term, into_term) compared with each other and with spec/control_messages.json; interval-guarded CAST and index obligations',
      'All 30 numbered operations and the Generic fallback are enumerated from the compiler\'s MIR: tag numbers (enum = TryFrom = protocol table), the arity guard and element->field map of from_term, the tag and field order written by to_term and into_term (mutually and against the protocol table), lossless numeric conversion (CAST) and guarded indexing (PANIC). These are necessary conditions of C08 and cover its tabular part completely; value equality of opaque fields follows from their being moved/cloned unmodified (provenance), not from execution.',
      NOTE, 'DESIGN.md §4 C08')

claim('C16',
      'lock-guard typestate dataflow (must-hold analysis over MIR moves/drops), who-may-call on escaping accessors, per-path store/provenance rules, atomic-RMW discipline',
      'Every atomic access to the pid counters in the workspace is shown to lie inside the live range of the wrap_lock guard on all paths (forward must-dataflow of the guard through moves and drops); the two accessors that leak a reference to a counter have no caller; in allocate each path to a pid construction performs exactly one next_id store whose value is loaded-id+1 (or the reset together with a serial advance) and the returned id/serial/creation have the matching provenance; reference_counter is only touched by atomic fetch_add and each reference word comes from its own fetch_add. Given mutual exclusion, uniqueness reduces to a sequential argument (ids strictly increase between wraps, the serial changes at each wrap) which is stated, not mechanised; interleavings are not explored.',
      NOTE, 'DESIGN.md §4 C16')
