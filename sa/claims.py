"""Per-property manifest claims (filled in as each rule set goes live)."""
CLAIMED = {}


def claim(pid, technique, text, note, ref):
    CLAIMED[pid] = (technique, text, note, ref)


NOTE = ('Trusted: rustc nightly MIR construction/type resolution, the mirfacts fact model, the rule code, the spec/ tables '
        '(hand-transcribed from the OTP docs), API summaries of external crates (nom, bytes, tokio, flate2, dashmap). '
        'Decides structural clauses only; value-level behaviour, schedules and histories are not decided. Rules added after the first build (seeded-change rounds), '
        'including the rules of other properties that each check re-runs as dependencies (map-key order, atom interning tables, allocator, handshake, control table ...), are listed in DESIGN.md section 10.')

claim('C08',
      'dispatch-table extraction from resolved MIR matches (enum discriminants, TryFrom<u8>, from_term, to_term, into_term) compared with each other and with spec/control_messages.json; interval-guarded CAST and index obligations',
      'All 30 numbered operations and the Generic fallback are enumerated from the compiler\'s MIR: tag numbers (enum = TryFrom = protocol table), the arity guard and element->field map of from_term, the tag and field order written by to_term and into_term (mutually and against the protocol table), lossless numeric conversion (CAST) and guarded indexing (PANIC). These are necessary conditions of C08 and cover its tabular part completely; value equality of opaque fields follows from their being moved/cloned unmodified (provenance), not from execution.',
      NOTE, 'DESIGN.md §4 C08')

claim('C16',
      'lock-guard typestate dataflow (must-hold analysis over MIR moves/drops), who-may-call on escaping accessors, per-path store/provenance rules, atomic-RMW discipline',
      'Every atomic access to the pid counters in the workspace is shown to lie inside the live range of the wrap_lock guard on all paths (forward must-dataflow of the guard through moves and drops); the two accessors that leak a reference to a counter have no caller; in allocate each path to a pid construction performs exactly one next_id store whose value is loaded-id+1 (or the reset together with a serial advance) and the returned id/serial/creation have the matching provenance; reference_counter is only touched by atomic fetch_add and each reference word comes from its own fetch_add. Given mutual exclusion, uniqueness reduces to a sequential argument (ids strictly increase between wraps, the serial changes at each wrap) which is stated, not mechanised; interleavings are not explored.',
      NOTE, 'DESIGN.md §4 C16')

claim('C04',
      'who-may-write + edge-dominance (verify true-edge dominates the Connected write) + provenance slices on the state machine; digest-shape recognition calibrated against a fixture; wire-signature extraction of handshake codecs vs spec/handshake.json; Buf-consumption dataflow; step order/timeout wrapping in connect',
      'Decided from MIR on all paths: the only write of Connected is dominated by the true edge of ChallengeAck::verify(decode(data), self.our_challenge, self.cookie); verify is digest == compute_digest(challenge, cookie); compute_digest is MD5 over cookie ++ decimal(challenge) (recognised shape); the reply carries our challenge and the digest of the peer\'s; our_challenge only comes from generate_challenge(); negotiated flags are decoded.flags & self.flags; reset clears the challenges; emitted and parsed handshake messages have the protocol byte layout (widths, tag constants, length prefix equal to what follows, field order); every decoder read is covered by a remaining() guard; connect runs the steps in order, ?-propagates each, enables distribution framing only after the ack, and all handshake socket futures are arguments of tokio::time::timeout. Not decided: API-call interleavings as a reachability question, elapsed time, MD5 itself.',
      NOTE, 'DESIGN.md §4 C04')

claim('C05',
      'disallowed-API (who-may-call) rule on socket reads, forward-slice error-discipline rule, interval analysis proving the cap guard dominates the allocation, per-FrameMode width-table extraction and sibling comparison, wire-signature equality of the two writers',
      'Decided from MIR: the framing read path (framing.rs, transport.rs, connection.rs) calls only exact-read primitives, so chunk-invariance reduces to tokio\'s read_exact contract; no read result is discarded (EOF inside a frame is an error); in both frame readers the wire length is bounded by a constant cap on every path to the body allocation; the prefix width per FrameMode agrees across length_prefix_size / frame_message / write_framed / read_framed (2 and 4 bytes, big-endian) and in the node\'s second reader; the one-shot framer and the streaming writer write prefix(len(data)) ++ data and nothing else. Not decided: tokio I/O behaviour, Pending scheduling.',
      NOTE, 'DESIGN.md §4 C05')

claim('C17',
      'acquire/release pairing on all exits with variant-tracking path feasibility (Result state of the awaited receiver), provenance of key/sender/receiver, format-template comparison across sites, consuming-lookup table rule',
      'Decided from the MIR of the async bodies: after pending_rpcs.insert(k, tx) every exit of rpc_call_raw_with_timeout either passed pending_rpcs.remove(k) (same key value) or is reached only after the awaited receiver completed, i.e. the router had consumed the entry (the sender lives only in the map); the key is formatted from the pid freshly returned by allocate() (unique by C16), one oneshot channel per call with the sender moved into the map and the receiver awaited under a timeout; caller and router build the key with the same template over the same fields; the router uses a consuming remove and sends on the removed sender, so duplicate/late replies find nothing. Cancellation at await points is reported as information. Not decided: reply histories under real concurrency.',
      NOTE, 'DESIGN.md §4 C17')

claim('C18',
      'who-may-mutate + reachability rule on registry cleanup, insertion-only-through-vacant-entry table rule, dominance (notify before remove, awaited), provenance of exit notices and gen_server replies, single-consumer loop shape, bookkeeping symmetry tables',
      'Decided from MIR: when a process task ends every path reaches registry.remove(own pid), which deletes from by_pid and from by_name; by_name is only ever inserted through Entry::Vacant (a name never maps to two processes); exit propagation is awaited on every path before the removal, iterates snapshots of the link and monitor sets, and each notice carries handle.pid and the stored reference; the task is the single consumer of a tokio mpsc receiver and calls handle_message once per received message; gen_server sends exactly one {Reference, Reply} to the caller; local link/unlink/monitor/demonitor keep both handles symmetric. Not decided: exactly-once/ordering under interleavings (tokio channel semantics trusted), instantaneous consistency of the two separately locked tables.',
      NOTE, 'DESIGN.md §4 C18')

claim('C19',
      'routing-table extraction with provenance (recipient and notice fields), loop-exit classification over the statically computed producible error set (Display literals / discriminant switch evaluated from MIR), CFG exit-edge rules, dominance of deregistration',
      'Decided from MIR: route_message delivers Send/RegSend/Exit/MonitorPExit to the recipient named in the control message (RegSend via whereis) with sender, reference and reason taken from the matching fields, and everything else is ignored; no loop exit lies on the Ok arm (routing failures and unknown recipients keep the receiver alive); for each edp_client::Error variant that receive_message_from_read_half can actually return (computed from constructions, ?-conversions and callees) the loop continues or breaks as the property requires (evaluated on the predicate the code uses: a substring test on the variants\' Display literals, or a discriminant match); connections.remove runs only after the loop and on every exit. Not decided: fault sequences over time, cancel-safety of reads.',
      NOTE, 'DESIGN.md §4 C19')

claim('C09',
      'dominance of the duplicate guard over the completion counter, consuming-completion (typestate by ownership + provenance), key provenance, reachability of the expiry predicate from the receive entry point, traversal-order shape rule, PANIC family with interval/relational discharge, forward-slice transfer rule',
      'Decided from MIR: every received_count increment is under the is-empty test of the very slot it fills and is_complete is an equality with the total (duplicates never count; completion happens exactly at the last missing fragment); a completed message passed to reassemble was removed from pending or never inserted and reassemble consumes it; every pending access is keyed by the call\'s own sequence id (isolation); the expiry predicate is reachable from Connection::receive_message; buffered continuations are transferred when the total becomes known; no panic-capable site in the assembler is undischarged; the concatenation order is checked against the protocol\'s descending-id order (recorded known finding). Not decided: permutation invariance as a quantified statement, memory accounting.',
      NOTE, 'DESIGN.md §4 C09')

claim('C02',
      'PANIC / ALLOC / REC / read-to-end obligation families over the call graph reachable from the decode entry points, discharged by guard-aware interval + relational analysis (suffix relation of parser results, take(n) lengths, loop-variable bounds), reviewed table with stated premises for the remainder',
      'For every function of erltf reachable from the 8 decode entry points (and BorrowedTerm::to_owned) every panic-capable site (slice/array indexing, arithmetic overflow, division, unwrap/expect, explicit panic, partial std APIs), every wire-sized allocation (must be bounded by the remaining input length or by <= 1 MiB) and every read_to_end (must go through io::Take) is enumerated from MIR and discharged on all paths, and every call-graph cycle is checked for a depth guard (three recorded known findings: unbounded recursion). A handful of sites are discharged by a reviewed table whose entries state the premise (nom suffix property, flate2 total_in contract, static table). Not decided: peak memory / stack depth as numbers, behaviour of nom / flate2 / bytes internals.',
      NOTE, 'DESIGN.md §4 C02')

claim('C03',
      'dispatch-table extraction of the owned decoder vs spec/etf_tags.json, normalised wire-signature extraction per tag (widths, order, count/length provenance) vs the format table, field-order provenance, Latin-1 path rule, trailing-data dominance, CAST',
      'Decided from MIR for all 32 dispatched tags: every tag of the format (OTP 26+ and legacy) is dispatched and nothing alien is accepted; the bytes read per tag equal the format\'s layout including which field counts which repetition or byte run; each tag builds the value kind the format assigns; same-width fields are not transposed (read order = constructor parameter order, constructors store parameters in same-named fields); the legacy Latin-1 atom tags have a success path without UTF-8 validation; every single-term entry point (and the inflated inner buffer) tests for trailing data before Ok; no unguarded narrowing cast. Not decided: value equality, numerically-equal map keys (a consequence of the comparator, C12).',
      NOTE, 'DESIGN.md §4 C03')

claim('C13',
      'sibling (twin) comparison of the two hand-duplicated parser families: dispatch tables, normalised wire signatures, guard-constant multisets, constructed variants; conversion-table extraction; shape rule on byte_offset writes',
      'Decided from MIR for all 23 tags the zero-copy decoder dispatches: each is also dispatched by the owned decoder, every modern distribution tag is covered, and per tag the two parsers read the same layout, apply the same caps and validity tests (same operators and constants) and build corresponding variants; to_owned and From<&OwnedTerm> map each of the 17 variants to itself; every byte_offset write has the form original_len - len(suffix)[-1]. Agreement of results on all inputs follows from these for well-typed paths but is not mechanised beyond signatures.',
      NOTE, 'DESIGN.md §4 C13')

claim('C01',
      'tag-flow closure over dispatch tables of encoder and decoder (variant -> emitted tags -> decoded variant -> class / re-encode stability), writer wire-signature extraction compared with the reader\'s and with spec/etf_tags.json (incl. count provenance and field order), interval-guarded CAST over the encoder',
      'Decided from MIR: all 17 variants are dispatched; each of the 21 tags the encoder can emit is decoded, into a variant of the same Erlang value class, and that variant can emit the tag again; for every emitted tag the bytes written after the tag have exactly the layout the decoder reads and the format prescribes, including which written count governs which repetition or byte run and the order of same-width identifier fields; every length/arity/count written with a narrower width is range-guarded or try_from-ed (sizes the format cannot express are errors). These are necessary conditions of the round trip at the level of tags, layouts and sizes; equality of values (integer magnitude, float bits, bytes) is not decided.',
      NOTE, 'DESIGN.md §4 C01')

claim('C10',
      'provenance of the captured raw bytes, wire signature of the replay path, field-set agreement of Eq/Hash/Ord, who-may-construct rule over the whole workspace, conversion tables',
      'Decided from MIR: parse_local_ext rebuilds a decoded pid/port/reference with exactly start[..8 + bytes consumed by the nested term] and the nested identifier\'s own fields; each identifier encoder writes `121 ++ raw bytes` (and nothing else) whenever raw bytes are present; eq, hash and cmp of the three identifier types read the same field set, namely all fields but the raw bytes (same identifier recognised in either form), while the derived Clone carries everything; no library function builds an identifier from the fields of an existing one and the owned<->borrowed conversions clone the identifier whole. The mechanism behind C10 is structural, so these clauses cover it; value equality of the replayed bytes is by construction (the slice is copied verbatim).',
      NOTE, 'DESIGN.md §4 C10')

claim('C11',
      'finite abstract interpretation of both comparators over enum discriminants (all 17x17 variant pairs), catch-all and mirror-consistency rules on the extracted pair table, Eq=>Hash rule, lossy int->float rule on the comparison path, twin comparison (pair tables and MIR fingerprints of duplicated helpers)',
      'Decided from MIR for all 289 ordered variant pairs of OwnedTerm::cmp and of BorrowedTerm::cmp: pairs of different rank are decided by the rank alone; every same-rank pair reaches an arm that compares values, except the listed known findings (8 heterogeneous pairs per comparator fall into `_ => Equal`, which breaks transitivity); (A,B) and (B,A) arms are mirrors (opposite constants, or helpers defined as reverse with swapped arguments); floats are not hashed by raw bits without zero normalisation; integer->f64 rounding on the comparison path is reported (known findings); the zero-copy comparator has the same rank table and the same arm per pair, and its nine numeric helpers are MIR-identical to the owned ones. The laws as universally quantified statements over values are not decided.',
      NOTE, 'DESIGN.md §4 C11')

claim('C12',
      'rank-table extraction vs spec/term_order.json, shape rules on comparison recipes (big-integer digit order, map keys-before-values, tuple size-first, list elements-first), numeric exactness shared with C11',
      'Decided from MIR: the variant->rank map of both comparators is order-isomorphic to Erlang\'s number < atom < reference < fun < port < pid < tuple < map < list < bit-string; big-integer magnitudes are compared from the most significant digit; maps compare size, then all keys, then all values; tuples compare size before elements; lists compare elements before length; atoms compare by name. Rounding of integers against floats is reported under C11 clause 4 (known findings). Agreement on values (bit-wise bit-string order, exact float/integer comparison) is not decided.',
      NOTE, 'DESIGN.md §4 C12')

claim('C14',
      'wire-signature comparison of the header writer and reader with the format, parity shape rule on the LongAtoms mask, type fact on the cache key, provenance of reference resolution and of the cache argument, CAST',
      'Decided from MIR: every path of the header encoder starts 131, 68, count and both sides use n/2+1 flag bytes and the same entry layout; the LongAtoms mask on both sides is 0x01/0x10 selected by the parity of the reference count; atom count and atom lengths written are guarded; every decode_with_atom_cache call is fed the connection\'s own cache. Reported as known findings: the persistent cache is keyed by u8 (segment ignored), ATOM_CACHE_REF is resolved by internal index instead of header position, and the fragment-header consumer uses the reference count as a byte length. Not decided: sequences of headers from a sender model.',
      NOTE, 'DESIGN.md §4 C14')

claim('C06',
      'PANIC family over the receive-path glue, CFG rule on the tick edge, constant agreement of wire-form markers, provenance of per-connection state, error-discipline rule (no read after a decode error)',
      'Decided from MIR: no indexing/slicing/arithmetic site in receive_message, receive_message_from_read_half and decode_complete_fragment can panic on a peer-supplied frame (the decoder, control parser and assembler are covered by C02, C08, C09); in both receive loops a zero-length frame leads back to the next read and never to a return; the markers 131/68/69/70/112 agree across connection.rs, fragmentation.rs, erltf::tags and the format and each wire form has a branch; fragments go to the connection\'s own assembler and headers to its own atom cache (C14.5); decoders operate on the bytes of a fully read frame and their error edges return without reading again, so a bad frame cannot desynchronise framing. Not decided: exactly-once/in-order delivery as a history property; fragmented delivery end to end (depends on the C09 and C14 known findings).',
      NOTE, 'DESIGN.md §4 C06')

claim('C07',
      'dominance of the connected-state gate, who-may-call on the private writer, operation->message table with parameter provenance vs spec/control_messages.json, wire-signature of the frame writer per mode with symbolic length sums, type facts and guard-flow for exclusive writing',
      'Decided from MIR: all seven public operations that can write are gated by the connected-state test; send_control_message and write_half_mut are only called inside Connection; each operation builds exactly the control message (variant, protocol tag, parameter->field mapping, payload presence) the protocol assigns to it; send_control_message writes exactly one frame on each success path - pass-through u32(1+len(control)[+len(payload)]) 112 control [payload], or u32(len(E)) E with E from encode_with_dist_header(_multi) - and picks the mode from the negotiated DIST_HDR_ATOM_CACHE flag; the write half is reachable only through &mut Connection, connections are shared as Arc<tokio::sync::Mutex<Connection>> with no bypass, and every Node operation awaits the send while holding the guard, so frames cannot interleave (per-caller order rests on the mutex\'s FIFO fairness, trusted). Not decided: conformance as read by an independent implementation beyond the layout table; scheduling.',
      NOTE, 'DESIGN.md §4 C07')

claim('C15',
      'variant-level closure computed from dispatch tables: Prod(X) of each Serializer method, Wire(.) from the encoder/decoder tag flow with the encoder\'s width thresholds (established by interval analysis), Acc(X) of each Deserializer method; constant agreement of atoms; enum-variant shape table; CAST/PANIC over de.rs',
      'Decided from MIR for the 15 primitive kinds of the serde data model and the compound serialisers: every OwnedTerm variant the serialiser builds for X is accepted by deserialize_X, and so is every variant that term turns into after encode+decode (wide integers -> BigInt, String -> Binary, empty List -> Nil); the atoms for bool / None / unit agree between ser.rs and de.rs in the built configuration; the four enum-variant shapes produced are accepted by deserialize_enum. Not decided: value equality, map-key collisions, the derive macro (see DESIGN).',
      NOTE, 'DESIGN.md §4 C15')

claim('C20',
      'constant agreement of keys and struct names between the to-term and from-term side of each wrapper, CAST over every from_term, validating-constructor (who-may-construct) rule, overflow PANIC family over range.rs, wire closure of 64-bit fields, sibling table of the proplist helpers',
      'Decided from MIR for the 18 wrapper types with a to-term / from-term pair: every atom key and the struct module name written are the ones from_term reads; no term field is narrowed with an unguarded cast; wrappers that have a validating constructor build their from_term result through it; length, membership and size-hint arithmetic of ranges cannot overflow (128-bit, guarded division); the proplist helpers and the serde proplist access handle the same element shapes. Reported as a known finding: 64-bit range bounds are read back with as_integer(), which does not see big integers. Not decided: agreement of len/contains/iteration as arithmetic, proplist<->map losslessness as value-level statements, the derive macro.',
      NOTE, 'DESIGN.md §4 C20')
