"""Per-property manifest claims (filled in as each rule set goes live)."""
from .manifest_gen import claim

NOTE = ('Trusted: rustc nightly MIR construction/type resolution, the mirfacts fact model, the rule code, the spec/ tables '
        '(hand-transcribed from the OTP docs), API summaries of external crates (nom, bytes, tokio, flate2, dashmap). '
        'Decides structural clauses only; value-level behaviour, schedules and histories are not decided.')
