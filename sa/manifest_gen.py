"""Generate /verif/MANIFEST.json from the table below (kept valid at all times)."""
import json, os

VERIF = os.path.dirname(os.path.dirname(os.path.abspath(__file__)))
ALL = ['C%02d' % i for i in range(1, 21)]

from .claims import CLAIMED  # pid -> (technique, level text, level note, design ref)

PENDING_REASON = 'rule set not implemented yet (construction in progress, see DESIGN.md §7c)'


def build():
    checks = []
    for pid in ALL:
        if pid not in CLAIMED:
            continue
        tech, text, note, ref = CLAIMED[pid]
        checks.append({
            'property_id': pid,
            'quick_cmd': './check %s --tier quick' % pid,
            'thorough_cmd': './check %s --tier thorough' % pid,
            'evidence_file': '/verif/evidence/%s.json' % pid,
            'replay_cmd_template': './check %s --tier quick  # violation key: {path}' % pid,
            'engine': 'mirfacts+sa',
            'level_claimed': {'category': 'other', 'text': text, 'design_ref': ref},
            'level_note': note,
            'technique': tech,
        })
    na = [{'property_id': p, 'reason': PENDING_REASON} for p in ALL if p not in CLAIMED]
    m = {
        'version': 1,
        'setup_cmd': './setup.sh',
        'hooks': {
            'guard': 'michaelklishin_edp_rs_verif',
            'enable': 'none needed: static analysis reads the unmodified sources (no instrumentation)',
            'baseline_off_cmd': 'cd /repo && cargo nextest run --workspace --no-fail-fast --test-threads 8 --offline || cargo test --workspace --no-fail-fast --offline',
            'source_commits': [],
            'add_only': True,
        },
        'engines': [
            {'name': 'mirfacts', 'path': 'engine/mirfacts',
             'serves_properties': sorted(CLAIMED.keys()),
             'kind_free_text': 'rustc_private driver (RUSTC_WORKSPACE_WRAPPER under cargo +nightly check) dumping type-checked mir_built CFGs, ADTs, impls and evaluated constants as JSON facts'},
            {'name': 'sa', 'path': 'sa',
             'serves_properties': sorted(CLAIMED.keys()),
             'kind_free_text': 'Python rule engine over the facts: dominance/must-pass-through, pairing, provenance slices, dispatch-table and wire-signature extraction, cast/panic/alloc/recursion obligations, sibling and spec-table comparison'},
        ],
        'checks': checks,
        'not_applicable': na,
        'notes': 'Technique family: static analysis only. Each check decides structural clauses (necessary conditions) of its property from the compiler\'s MIR; the universally quantified behaviour itself is not decided. See DESIGN.md.',
    }
    with open(os.path.join(VERIF, 'MANIFEST.json'), 'w') as fh:
        json.dump(m, fh, indent=1)
    return m


if __name__ == '__main__':
    m = build()
    print('claimed:', [c['property_id'] for c in m['checks']])
