"""WIRE family: I/O event sequences along the success paths of a function.

success_sequences(B, event_fn) enumerates, over the CFG with loops collapsed
into rep(...) nodes, the distinct sequences of events on every path from entry
to a return that does not pass an error block.  Events are produced by
event_fn(B, bb) -> list of hashable events for that block.
"""
from .core import callee_of, callee_names, fold
from .ranges import canon
from .families import describe

WRITE_PRIMS = {
    'put_u8': 'u8', 'put_u16': 'u16', 'put_u32': 'u32', 'put_u64': 'u64', 'put_i8': 'i8', 'put_i16': 'i16',
    'put_i32': 'i32', 'put_i64': 'i64', 'put_f64': 'f64', 'put_f32': 'f32',
    'put_u16_le': 'u16le', 'put_u32_le': 'u32le', 'put_u64_le': 'u64le',
    'write_u8': 'u8', 'write_u16': 'u16', 'write_u32': 'u32', 'write_u64': 'u64',
    'write_u16_le': 'u16le', 'write_u32_le': 'u32le',
}
WRITE_BYTES = ('put_slice', 'extend_from_slice', 'write_all', 'put')
READ_PRIMS = {
    'get_u8': 'u8', 'get_u16': 'u16', 'get_u32': 'u32', 'get_u64': 'u64', 'get_i32': 'i32', 'get_f64': 'f64',
    'get_u16_le': 'u16le', 'get_u32_le': 'u32le',
    'be_u8': 'u8', 'be_u16': 'u16', 'be_u32': 'u32', 'be_u64': 'u64', 'be_i32': 'i32', 'be_i64': 'i64', 'be_f64': 'f64',
    'be_i8': 'i8', 'be_i16': 'i16', 'be_u24': 'u24', 'be_u128': 'u128', 'be_f32': 'f32', 'le_u8': 'u8', 'le_i8': 'i8', 'le_i16': 'i16le', 'le_i32': 'i32le', 'le_f64': 'f64le',
    'i8': 'i8', 'u8': 'u8',
    'le_u16': 'u16le', 'le_u32': 'u32le', 'le_u64': 'u64le',
    'read_u8': 'u8', 'read_u16': 'u16', 'read_u32': 'u32', 'read_u64': 'u64',
    'read_u16_le': 'u16le', 'read_u32_le': 'u32le',
}
IO_OWNERS = ('bytes::buf::buf_mut::BufMut::', 'bytes::buf::buf_impl::Buf::', 'nom::number::complete::',
             'nom::number::streaming::', 'tokio::io::util::async_write_ext::AsyncWriteExt::',
             'tokio::io::util::async_read_ext::AsyncReadExt::', 'alloc::vec::Vec::<T, A>::',
             'std::io::Write::', 'std::io::Read::', 'bytes::bytes_mut::BytesMut::')


def prim_of(t):
    """('w'|'r', width-or-'bytes', method) for I/O primitive calls, else None."""
    g, r = callee_of(t)
    if g is None:
        return None
    for n in (g, r):
        if not n:
            continue
        if not any(n.startswith(o) for o in IO_OWNERS):
            continue
        m = n.rsplit('::', 1)[1]
        if m in WRITE_PRIMS and ('BufMut' in n or 'AsyncWriteExt' in n):
            return ('w', WRITE_PRIMS[m], m)
        if m in READ_PRIMS and ('Buf::' in n or 'nom::number' in n or 'AsyncReadExt' in n):
            return ('r', READ_PRIMS[m], m)
        if m in WRITE_BYTES and ('BufMut' in n or 'AsyncWriteExt' in n or n.startswith('alloc::vec::Vec') or 'io::Write' in n or 'BytesMut' in n):
            return ('w', 'bytes', m)
        if m == 'push' and n.startswith('alloc::vec::Vec'):
            return ('w', 'push', m)
        if m == 'put_bytes' and 'BufMut' in n:
            return ('w', 'fill', m)       # put_bytes(value, count): `count` times the same byte
        if m in ('copy_to_slice', 'read_exact', 'copy_to_bytes') and ('Buf::' in n or 'AsyncReadExt' in n or 'io::Read' in n):
            return ('r', 'bytes', m)
        if m == 'advance' and 'Buf::' in n:
            return ('r', 'skip', m)
    return None


def error_blocks(B):
    """Blocks that put an error into the return place or propagate a residual."""
    out = set()
    ret_ty = B.b['locals'][0]['ty']
    # locals whose value is handed to the return slot by a plain move (an inlined helper's own result slot): an Err put there is an error exit too
    ret_srcs = {0}
    for _ in range(3):
        for blk in B.blocks:
            for st in blk['s']:
                if st['k'] == '=' and not st['pl'].get('p') and st['pl']['l'] in ret_srcs and st['rv']['k'] == 'use' and st['rv']['op'].get('k') in ('cp', 'mv') \
                        and not st['rv']['op']['pl'].get('p'):
                    ret_srcs.add(st['rv']['op']['pl']['l'])
    for i, blk in enumerate(B.blocks):
        t = blk['t']
        if t['k'] == 'call':
            g, r = callee_of(t)
            if g == 'core::ops::try_trait::FromResidual::from_residual' and t['dst']['l'] in ret_srcs and not t['dst'].get('p'):
                out.add(i)
            if g and (g.startswith('core::panicking::') or g.startswith('std::rt::begin_panic') or g == 'core::option::unwrap_failed'
                      or g == 'core::result::unwrap_failed' or g == 'core::option::expect_failed'):
                out.add(i)
        if t['k'] == 'unreachable':
            out.add(i)
        for st in blk['s']:
            if st['k'] == '=' and st['pl']['l'] in ret_srcs and not st['pl'].get('p'):
                rv = st['rv']
                if rv['k'] == 'agg' and rv['ak'] == 'adt' and rv['adt'] == 'core::result::Result' and rv['var'] == 'Err':
                    out.add(i)
                if rv['k'] == 'agg' and rv['ak'] == 'adt' and rv['adt'] == 'core::option::Option' and rv['var'] == 'None' \
                        and 'Option' in ret_ty and False:
                    out.add(i)
    return out


def _sccs(B, nodes):
    index, low, on, stack, res = {}, {}, set(), [], []
    counter = [0]
    import sys
    sys.setrecursionlimit(20000)

    def strong(v):
        index[v] = low[v] = counter[0]
        counter[0] += 1
        stack.append(v)
        on.add(v)
        for w in B.succ(v):
            if w not in nodes:
                continue
            if w not in index:
                strong(w)
                low[v] = min(low[v], low[w])
            elif w in on:
                low[v] = min(low[v], index[w])
        if low[v] == index[v]:
            comp = []
            while True:
                w = stack.pop()
                on.discard(w)
                comp.append(w)
                if w == v:
                    break
            res.append(comp)

    for v in sorted(nodes):
        if v not in index:
            strong(v)
    return res


def success_sequences(B, event_fn, cap=4000, drop_errors=True, start=0, region=None):
    """Set of event tuples over success paths; returns (set, truncated_flag).
    With `region` (a set of blocks) and `start`: the paths from `start` inside the region, ending where they leave it."""
    live = B.live_blocks()
    if region is not None:
        live = set(live) & set(region)
    err = error_blocks(B) if drop_errors else set()
    comps = _sccs(B, live)
    comp_of = {}
    for ci, c in enumerate(comps):
        for v in c:
            comp_of[v] = ci
    is_loop = {}
    for ci, c in enumerate(comps):
        is_loop[ci] = len(c) > 1 or (c[0] in B.succ(c[0]))
    # events per component
    ev = {}
    for ci, c in enumerate(comps):
        if not is_loop[ci]:
            ev[ci] = tuple(event_fn(B, c[0]))
        else:
            # order blocks of the loop by BFS from its entry (header) ignoring back edges
            cs = set(c)
            preds = B.preds()
            headers = [v for v in c if any(p not in cs for p in preds.get(v, [])) or v == 0]
            # ... in reverse post-order, so that a block comes after everything that can run before it in one iteration
            # (breadth-first order puts the short arm of a branch and what follows the join before the long arm)
            hs = list(sorted(headers)) or [min(c)]
            if len(hs) > 1:
                # a block inside the loop that is also entered from outside (a join shared with the code before the loop) is no loop
                # entry: the entry is the block every other block of the loop is reached through
                dom_ = [h for h in hs if all(B.block_dominates(h, v) for v in c)]
                if dom_:
                    hs = dom_[:1]
            post, seen = [], set()
            for h in hs:
                if h in seen:
                    continue
                stack = [(h, iter(sorted(s_ for s_ in B.succ(h) if s_ in cs and s_ not in hs)))]
                seen.add(h)
                while stack:
                    x, it_ = stack[-1]
                    nxt = next(it_, None)
                    if nxt is None:
                        post.append(x)
                        stack.pop()
                    elif nxt not in seen:
                        seen.add(nxt)
                        stack.append((nxt, iter(sorted(s_ for s_ in B.succ(nxt) if s_ in cs and s_ not in hs))))
            order = list(reversed(post))
            inner = []
            for v in order:
                if v in err:
                    continue
                inner += list(event_fn(B, v))
            ev[ci] = (('rep', tuple(inner)),) if inner else ()
    # successor components
    succs = {}
    for ci, c in enumerate(comps):
        ss = set()
        for v in c:
            for w in B.succ(v):
                if w in comp_of and comp_of[w] != ci:
                    ss.add(comp_of[w])
        succs[ci] = ss
    memo = {}
    trunc = [False]

    def seqs(ci):
        if ci in memo:
            return memo[ci]
        c = comps[ci]
        if not is_loop[ci] and c[0] in err:
            memo[ci] = set()
            return memo[ci]
        out = set()
        term_here = any(B.blocks[v]['t']['k'] == 'ret' for v in c)
        if region is not None and not term_here:
            term_here = any(w not in live and w not in err and not B.is_unreachable_block(w) for v in c for w in B.succ(v))
        if term_here:
            out.add(ev[ci])
        for s_ in succs[ci]:
            for tail in seqs(s_):
                out.add(ev[ci] + tail)
                if len(out) > cap:
                    trunc[0] = True
                    break
        memo[ci] = out
        return out

    res = seqs(comp_of[start]) if start in comp_of else set()
    return res, trunc[0]


# ------------------------------------------------------------------ events ----

def io_events(B, bb, buf_filter=None, detail=True, subcalls=None):
    """Default event function: I/O primitives as (dir, width, value-description).
    subcalls: dict callee path -> event name, for calls that perform I/O themselves
    (e.g. parse_term -> 'term')."""
    t = B.blocks[bb]['t']
    if t['k'] != 'call':
        return []
    prev_at = getattr(B, '_cur_at', None)
    B._cur_at = (bb, None)           # values are described as they are at this block (which definition reaches it)
    try:
        return _io_events(B, bb, t, buf_filter, detail, subcalls)
    finally:
        B._cur_at = prev_at


def _io_events(B, bb, t, buf_filter=None, detail=True, subcalls=None):
    p = prim_of(t)
    if p is not None:
        d, w, m = p
        if d == 'w':
            if w in ('bytes',):
                val = t['args'][1] if len(t['args']) > 1 else None
                return [('w', 'bytes', _val(B, val) if (detail and val is not None) else None)]
            if w == 'push':
                val = t['args'][1]
                if 'u8' in B.b['locals'][t['args'][0]['pl']['l']]['ty'] if t['args'][0]['k'] != 'c' else False:
                    return [('w', 'u8', _val(B, val) if detail else None)]
                return []
            val = t['args'][1] if len(t['args']) > 1 else None
            return [('w', w, _val(B, val) if (detail and val is not None) else None)]
        else:
            if w == 'bytes':
                val = t['args'][1] if len(t['args']) > 1 else None
                return [('r', 'bytes', _len_of(B, val) if val is not None else None)]
            if w == 'skip':
                return [('r', 'skip', _val(B, t['args'][1]))]
            return [('r', w, None)]
    g, r = callee_of(t)
    # nom take(n)(input): FnMut::call_mut(&mut p, (input,)) with p = take(n)
    if g in ('core::ops::function::FnMut::call_mut', 'core::ops::function::FnOnce::call_once', 'nom::internal::Parser::parse'):
        o = B.origin(t['args'][0])
        if o[0] == 'call' and o[1] and o[1].startswith('nom::bytes::complete::take'):
            tt = B.blocks[o[2]]['t']
            return [('r', 'bytes', _val(B, tt['args'][0]))]
    if subcalls:
        for n in (g, r):
            if n in subcalls:
                return [subcalls[n]] if not callable(subcalls[n]) else [subcalls[n](B, bb, t)]
    return []


def _val(B, op):
    if op is None:
        return None
    c = canon(B, op)
    if c[0] == 'const':
        return c[1]
    return describe(B, c)


def _len_of(B, op):
    """description of the length of the buffer argument of copy_to_slice/read_exact"""
    if op is None:
        return None
    if op['k'] in ('cp', 'mv'):
        ty = B.local_ty(op['pl']['l'])
        import re
        m = re.search(r'\[u8; (\d+)\]', ty)
        if m:
            return int(m.group(1))
    o = B.origin(op)
    import re
    while o[0] == 'cast':
        m = re.search(r'\[u8; (\d+)\]', o[1])
        if m:
            return int(m.group(1))
        o = o[3]
    if o[0] in ('local', 'arg'):
        ty = B.local_ty(o[1])
        import re
        m = re.search(r'\[u8; (\d+)\]', ty)
        if m and not o[2]:
            return int(m.group(1))
        return 'len(%s)' % (B.local_name(o[1]) or 'buf')
    return 'len(?)'


def fmt_seq(seq):
    out = []
    for e in seq:
        if isinstance(e, tuple) and e and e[0] == 'rep':
            out.append('rep(' + fmt_seq(e[1]) + ')')
        elif isinstance(e, tuple):
            d = e[1] if len(e) > 1 else ''
            v = e[2] if len(e) > 2 else None
            out.append('%s%s' % (d, '' if v is None else '(%s)' % (v,)))
        else:
            out.append(str(e))
    return ' '.join(out)


def shape(seq):
    """Erase value descriptions: keep widths and constants only."""
    out = []
    for e in seq:
        if isinstance(e, tuple) and e and e[0] == 'rep':
            out.append(('rep', shape(e[1])))
        elif isinstance(e, tuple) and len(e) >= 3:
            out.append((e[1], e[2] if isinstance(e[2], int) else None))
        elif isinstance(e, tuple) and len(e) == 2:
            out.append((e[1], None))
        else:
            out.append(e)
    return tuple(out)


def widths(seq):
    out = []
    for e in seq:
        if isinstance(e, tuple) and e and e[0] == 'rep':
            out.append(('rep', widths(e[1])))
        elif isinstance(e, tuple) and len(e) >= 2:
            out.append(e[1])
        else:
            out.append(e)
    return tuple(out)


# --------------------------------------------------------- normalised signatures ----

def _read_site_of(B, c):
    """for a canonical value: the block of the read primitive it comes from, if any"""
    # ('place', ('payload', ('call', name, bb)), ('1',))  from  be_u32(input)?.1
    if c[0] == 'cast':
        return _read_site_of(B, c[2])
    if c[0] == 'place' and c[1][0] == 'payload' and c[1][1][0] == 'call':
        return c[1][1][2]
    if c[0] == 'call':
        return c[2]
    return None


def loop_bound(B, comp_blocks):
    """For a loop (set of blocks): canonical value of the end of the `a..b` Range it iterates, or the
    collection it iterates; returns ('range', canon_end) | ('iter', canon_collection) | None"""
    for bb in sorted(comp_blocks):
        t = B.blocks[bb]['t']
        if t['k'] != 'call':
            continue
        g, r = callee_of(t)
        if g != 'core::iter::traits::iterator::Iterator::next' or not t['args']:
            continue
        o = B.origin(t['args'][0])
        for _ in range(6):
            if o[0] == 'call' and o[1] and (o[1].endswith('into_iter') or o[1].endswith('::iter') or o[1].endswith('::iter_mut')
                                            or o[1].endswith('::enumerate') or o[1].endswith('::rev')):
                o = B.origin(B.blocks[o[2]]['t']['args'][0])
                continue
            break
        if o[0] == 'agg' and o[1].get('adt', '').endswith('ops::range::Range') and len(o[1]['ops']) == 2:
            return ('range', canon(B, o[1]['ops'][1], 0, (o[2], None)))      # as it is where the range is built
        if o[0] in ('arg', 'local', 'call', 'proj'):
            return ('iter', o)
    return None


def signature(B, subcalls=None, direction='r', start=0, region=None):
    """Normalised wire signatures of a reader/writer: set of tuples of items
       ('u8'|'u16'|...,) | ('bytes', ref) | ('term',) | ('rep', items, ref) | ('const', width, value)
    where ref is the index of the earlier item that supplies the length/count, an int constant, or None."""
    live = B.live_blocks()
    err = error_blocks(B)
    comps = _sccs(B, live)
    comp_of = {}
    for ci, c in enumerate(comps):
        for v in c:
            comp_of[v] = ci
    loops = {ci: set(c) for ci, c in enumerate(comps) if len(c) > 1 or c[0] in B.succ(c[0])}

    def ev(B_, bb):
        out = []
        for e in io_events(B_, bb, detail=True, subcalls=subcalls):
            out.append(e + (bb,) if isinstance(e, tuple) else (e, bb))
        return out

    # raw sequences with site ids; loops become ('rep', inner, loopinfo)
    def event_fn(B_, bb):
        return ev(B_, bb)

    seqs, trunc = success_sequences(B, event_fn, start=start, region=region)
    out = set()
    for s in seqs:
        out.add(_normalise(B, s, loops, comp_of))
    return out, trunc


def _normalise(B, seq, loops, comp_of):
    items = []
    site_pos = {}     # bb of a read primitive -> index of its item

    def norm_item(e, pos_base):
        if isinstance(e, tuple) and e and e[0] == 'rep':
            inner = []
            first_bb = None
            for x in e[1]:
                inner.append(norm_item(x, None))
                if first_bb is None and isinstance(x, tuple):
                    first_bb = x[-1]
            ref = None
            if first_bb is not None and first_bb in comp_of and comp_of[first_bb] in loops:
                lb = loop_bound(B, loops[comp_of[first_bb]])
                if lb and lb[0] == 'range':
                    site = _read_site_of(B, lb[1])
                    if site in site_pos:
                        ref = site_pos[site]
                    elif lb[1][0] == 'const':
                        ref = ('const', lb[1][1])
                    else:
                        ref = ('val', _short(B, lb[1]))
                elif lb and lb[0] == 'iter':
                    ref = ('iter', _short_o(B, lb[1]))
            return ('rep', tuple(inner), ref)
        if not isinstance(e, tuple):
            return (str(e),)
        if e[0] in ('r', 'w'):
            d, w, v = e[0], e[1], e[2]
            if w == 'bytes':
                ref = None
                if isinstance(v, int):
                    ref = ('const', v)
                elif v is not None:
                    ref = ('val', str(v))
                return ('bytes', ref)
            if d == 'w' and isinstance(v, int):
                return ('const', w, v)
            if d == 'w':
                return (w, ('val', str(v)))
            return (w,)
        return (str(e[0]),)

    for e in seq:
        it = norm_item(e, None)
        if isinstance(e, tuple) and e and e[0] in ('r',) and e[1] not in ('bytes', 'skip'):
            site_pos[e[-1]] = len(items)
        items.append(it)
    # resolve byte-length references of readers: take(n) where n comes from an earlier read
    res = []
    for i, (e, it) in enumerate(zip(seq, items)):
        if it[0] == 'bytes' and isinstance(e, tuple) and e[0] == 'r' and e[2] is not None and not isinstance(e[2], int):
            # e[2] is a description; recover the canonical value from the take() call
            bb = e[-1]
            t = B.blocks[bb]['t']
            ref = it[1]
            g, r = callee_of(t)
            if g in ('core::ops::function::FnMut::call_mut', 'core::ops::function::FnOnce::call_once', 'nom::internal::Parser::parse'):
                o = B.origin(t['args'][0])
                if o[0] == 'call':
                    n_op = B.blocks[o[2]]['t']['args'][0]
                    site = _read_site_of(B, canon(B, n_op))
                    if site in site_pos:
                        ref = site_pos[site]
            res.append(('bytes', ref))
        else:
            res.append(it)
    return tuple(res)


def _short(B, c):
    return describe(B, c)


def _short_o(B, o):
    if o[0] in ('arg', 'local'):
        nm = B.local_name(o[1]) or ('arg%d' % o[1])
        return nm + ''.join('.' + str(p) for p in o[2])
    if o[0] == 'call':
        return (o[1] or '?').rsplit('::', 1)[-1] + '()'
    return o[0]


def fmt_sig(sig):
    out = []
    for it in sig:
        if it[0] == 'rep':
            out.append('rep[%s](%s)' % (_fmt_ref(it[2]), fmt_sig(it[1])))
        elif it[0] == 'bytes':
            out.append('bytes[%s]' % _fmt_ref(it[1] if len(it) > 1 else None))
        elif it[0] == 'const':
            out.append('%s=%s' % (it[1], it[2]))
        elif len(it) == 2:
            out.append('%s(%s)' % (it[0], _fmt_ref(it[1])))
        else:
            out.append(it[0])
    return ' '.join(out)


def _fmt_ref(r):
    if r is None:
        return '?'
    if isinstance(r, int):
        return '#%d' % r
    if isinstance(r, tuple):
        return str(r[1])
    return str(r)


# ------------------------------------------------------------------ correlated branches ----
def correlated_sequences(B, event_fn, **kw):
    """success_sequences without the paths that contradict themselves about an enum value: a path that builds `Step::A(..)` and
    later takes the arm for `Step::B` of a match on that value does not exist.  (A function split into "prepare a value of a small
    enum" and "act on it" has such a pair of branches in every caller the halves were spliced into.)  Only enums of the workspace,
    only literals assigned to whole locals, only switches whose arm blocks are entered from the switch alone."""
    WS_ = ('edp_client::', 'edp_node::', 'erltf::', 'erltf_serde::', 'edp_elixir_terms::')
    lit_at, lit_local, lit_adt = {}, {}, {}
    n = 0
    for bb, j, st in B.stmts():
        if st['k'] == '=' and not st['pl'].get('p') and st['rv']['k'] == 'agg' and st['rv'].get('ak') == 'adt' and 'vi' in st['rv'] and str(st['rv'].get('adt', '')).startswith(WS_):
            n += 1
            lit_at.setdefault(bb, []).append((n, st['rv']['vi']))
            lit_local[n] = st['pl']['l']
            lit_adt[n] = st['rv']['adt']
    tests = {}
    if len(lit_local) >= 2:
        derived = {k: (B.derived_locals([l]) | {l}) for k, l in lit_local.items()}
        preds = B.preds()
        for sb in sorted(B.live_blocks()):
            sd = B.switch_on_discr(sb)
            if not sd or not str(sd[1]).replace('&', '').startswith(WS_):
                continue
            ty_ = str(sd[1]).replace('&', '').split('<')[0]
            cands = frozenset(k for k in lit_local if lit_adt[k].split('<')[0] == ty_ and sd[0]['l'] in derived[k])
            if len({v for k in cands for b_, vs in lit_at.items() for (k2, v) in vs if k2 == k}) < 2:
                continue
            listed = [v for v, _ in sd[2]]
            for v, tgt in sd[2]:
                if preds.get(tgt, []) == [sb] and tgt != sd[3]:
                    tests[tgt] = (cands, ('is', v))
            if preds.get(sd[3], []) == [sb] and sd[3] not in [t_ for _, t_ in sd[2]]:
                tests[sd[3]] = (cands, ('not', tuple(listed)))
    if not tests:
        return success_sequences(B, event_fn, **kw)

    def ev2(B_, bb):
        out = []
        if bb in tests:
            out.append(('§test',) + tests[bb])
        for k, vi in lit_at.get(bb, []):
            out.append(('§set', k, vi))
        return out + list(event_fn(B_, bb))
    seqs, trunc = success_sequences(B, ev2, **kw)
    res = set()
    for s_ in seqs:
        last, ok, pos = {}, True, 0
        for e in s_:
            pos += 1
            if isinstance(e, tuple) and e and e[0] == '§set':
                last[e[1]] = (pos, e[2])
            elif isinstance(e, tuple) and e and e[0] == '§test':
                seen_ = [last[k] for k in e[1] if k in last]
                if seen_:
                    vi = max(seen_)[1]
                    if (e[2][0] == 'is' and vi != e[2][1]) or (e[2][0] == 'not' and vi in e[2][1]):
                        ok = False
                        break
        if ok:
            res.add(tuple(e for e in s_ if not (isinstance(e, tuple) and e and isinstance(e[0], str) and e[0].startswith('§'))))
    return res, trunc
