"""Run the mirfacts driver over /repo's workspace; content-addressed cache.

Facts are re-extracted whenever any source file of the workspace differs from
what the cached facts were produced from.  cargo's freshness cache silently
skipping the wrapper is the known trap: member fingerprints are purged before
every extraction and fresh fact files are asserted afterwards.
"""
import hashlib, os, subprocess, sys, glob, shutil, time, fcntl, json

VERIF = os.path.dirname(os.path.dirname(os.path.abspath(__file__)))
REPO = os.environ.get('VERIF_REPO', '/repo')
CACHE = os.environ.get('VERIF_CACHE', os.path.join(VERIF, '.cache'))
DRIVER = os.path.join(VERIF, 'engine/mirfacts/target/release/mirfacts')
EXPECTED = ['erltf', 'erltf_serde', 'erltf_serde_derive', 'edp_client', 'edp_node', 'edp_elixir_terms']


def source_hash(root):
    h = hashlib.sha256()
    files = []
    for base in ('crates',):
        for dp, dn, fn in os.walk(os.path.join(root, base)):
            dn[:] = [d for d in dn if d not in ('target', '.git')]
            for f in fn:
                if f.endswith('.rs') or f == 'Cargo.toml':
                    files.append(os.path.join(dp, f))
    for f in ('Cargo.toml', 'Cargo.lock'):
        p = os.path.join(root, f)
        if os.path.exists(p):
            files.append(p)
    for f in sorted(files):
        h.update(os.path.relpath(f, root).encode())
        with open(f, 'rb') as fh:
            h.update(hashlib.sha256(fh.read()).digest())
    return h.hexdigest(), len(files)


def sysroot():
    return subprocess.check_output(['rustc', '+nightly', '--print', 'sysroot'], text=True).strip()


def build_driver():
    if os.path.exists(DRIVER):
        src = os.path.join(VERIF, 'engine/mirfacts/src/main.rs')
        if os.path.getmtime(src) <= os.path.getmtime(DRIVER):
            return
    env = dict(os.environ, CARGO_NET_OFFLINE='true')
    subprocess.check_call(['cargo', '+nightly', 'build', '--release', '--offline'],
                          cwd=os.path.join(VERIF, 'engine/mirfacts'), env=env,
                          stdout=subprocess.DEVNULL, stderr=subprocess.DEVNULL)


def run_driver(src_root, facts_dir, target_dir, extra_args=(), features=None, packages=None):
    os.makedirs(facts_dir, exist_ok=True)
    os.makedirs(target_dir, exist_ok=True)
    # purge member fingerprints so that the wrapper really runs
    fp = os.path.join(target_dir, 'debug', '.fingerprint')
    if os.path.isdir(fp):
        for d in os.listdir(fp):
            if d.startswith(('erltf', 'edp_', 'interop_', 'posfix', 'derive_probe')):
                shutil.rmtree(os.path.join(fp, d), ignore_errors=True)
    for f in glob.glob(os.path.join(facts_dir, '*.json')):
        os.unlink(f)
    env = dict(os.environ)
    env.update({
        'LD_LIBRARY_PATH': sysroot() + '/lib',
        'RUSTFLAGS': '-Awarnings',
        'RUSTC_WORKSPACE_WRAPPER': DRIVER,
        'MIRFACTS_OUT': facts_dir,
        'CARGO_TARGET_DIR': target_dir,
        'CARGO_NET_OFFLINE': 'true',
    })
    env.pop('RUSTC_WRAPPER', None)
    cmd = ['cargo', '+nightly', 'check', '--offline']
    if packages:
        for p in packages:
            cmd += ['-p', p]
    else:
        cmd += ['--workspace']
    if features is not None:
        cmd += list(features)
    cmd += list(extra_args)
    r = subprocess.run(cmd, cwd=src_root, env=env, stdout=subprocess.PIPE, stderr=subprocess.STDOUT, text=True)
    return r.returncode, r.stdout


def ensure_facts(force=False, repo=None, cache=None, quiet=False):
    """Returns (facts_dir, info dict).  Raises RuntimeError when extraction fails."""
    repo = repo or os.environ.get('VERIF_REPO', '/repo')
    cache = cache or os.environ.get('VERIF_CACHE', os.path.join(VERIF, '.cache'))
    os.makedirs(cache, exist_ok=True)
    lock = open(os.path.join(cache, 'lock'), 'w')
    fcntl.flock(lock, fcntl.LOCK_EX)
    try:
        build_driver()
        facts_dir = os.path.join(cache, 'facts')
        target_dir = os.environ.get('VERIF_TARGET_DIR', os.path.join(cache, 'target'))
        stamp_file = os.path.join(cache, 'facts.stamp')
        h, nfiles = source_hash(repo)
        dh = hashlib.sha256(open(DRIVER, 'rb').read()).hexdigest()
        want = h + ':' + dh
        have = open(stamp_file).read().strip() if os.path.exists(stamp_file) else ''
        fresh = False
        t0 = time.time()
        if force or have != want or not all(
                glob.glob(os.path.join(facts_dir, c + '.*.json')) for c in EXPECTED):
            if os.path.exists(stamp_file):
                os.unlink(stamp_file)
            rc, out = run_driver(repo, facts_dir, target_dir)
            if rc != 0:
                raise RuntimeError('cargo check with mirfacts failed (the tree does not compile?)\n' + out[-4000:])
            missing = [c for c in EXPECTED if not glob.glob(os.path.join(facts_dir, c + '.*.json'))]
            if missing:
                raise RuntimeError('fact files missing after extraction: %s\n%s' % (missing, out[-2000:]))
            with open(stamp_file, 'w') as fh:
                fh.write(want)
            fresh = True
        return facts_dir, {'source_hash': h, 'source_files': nfiles, 'fresh_extraction': fresh,
                           'extract_s': round(time.time() - t0, 2)}
    finally:
        fcntl.flock(lock, fcntl.LOCK_UN)
        lock.close()


def ensure_fixture_facts():
    """Facts of fixtures/positive (calibration + must-fire examples); cached by content."""
    cache = os.path.join(VERIF, '.cache')
    os.makedirs(cache, exist_ok=True)
    lock = open(os.path.join(cache, 'lock.fixture'), 'w')
    fcntl.flock(lock, fcntl.LOCK_EX)
    try:
        build_driver()
        src = os.path.join(VERIF, 'fixtures', 'positive')
        facts_dir = os.path.join(cache, 'facts-fixture')
        stamp_file = os.path.join(cache, 'facts-fixture.stamp')
        h = hashlib.sha256()
        for f in ('Cargo.toml', 'src/lib.rs'):
            h.update(open(os.path.join(src, f), 'rb').read())
        h.update(open(DRIVER, 'rb').read())
        want = h.hexdigest()
        have = open(stamp_file).read().strip() if os.path.exists(stamp_file) else ''
        if have != want or not glob.glob(os.path.join(facts_dir, 'posfix.*.json')):
            if os.path.exists(stamp_file):
                os.unlink(stamp_file)
            rc, out = run_driver(src, facts_dir, os.path.join(cache, 'target-fixture'), packages=['posfix'])
            if rc != 0 or not glob.glob(os.path.join(facts_dir, 'posfix.*.json')):
                raise RuntimeError('fixture extraction failed\n' + out[-2000:])
            with open(stamp_file, 'w') as fh:
                fh.write(want)
        return facts_dir
    finally:
        fcntl.flock(lock, fcntl.LOCK_UN)
        lock.close()


if __name__ == '__main__':
    d, info = ensure_facts(force='--force' in sys.argv)
    print(d, json.dumps(info))
    print(ensure_fixture_facts())
