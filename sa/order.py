"""The order of the term types as a dependency of other properties.

Both decoders collect MAP_EXT entries into a BTreeMap keyed by the term type, so "no map entry is dropped or merged"
(C01, C03) and "both decoders give the same term" (C13) hold only if that order never calls two different terms
equal.  This module re-runs the comparator rules of C11/C12 under a rule of the calling property."""
from .families import check_self_compare, check_bigint_truncation


class SubCtx:
    """forwards verdicts of another property's rule code to one aggregated rule of the calling property"""
    def __init__(self, ctx, rule, tag, allow=None, inst=None):
        self._c, self._rule, self._tag, self._allow = ctx, rule, tag, allow
        self._inst = inst        # optional predicate on the instance name: only those instances are forwarded
        self.P, self.F, self.pid, self.tier = ctx.P, ctx.F, ctx.pid, ctx.tier
        self.PX, self.FX = getattr(ctx, 'PX', None), getattr(ctx, 'FX', None)
        self.records = ctx.records
        self.rules = ctx.rules

    def rule(self, *a, **k):
        pass

    def _skip(self, rule):
        return self._allow is not None and not any(rule == a or rule.startswith(a) for a in self._allow)

    def ok(self, rule, inst, detail='', where=None):
        if self._skip(rule) or (self._inst is not None and not self._inst(str(inst))):
            return
        self._c.ok(self._rule, '%s:%s:%s' % (self._tag, rule, inst), detail, where)

    def bad(self, rule, inst, detail, where=None, key=None):
        if self._skip(rule) or (self._inst is not None and not self._inst(str(inst))):
            return
        self._c.bad(self._rule, '%s:%s:%s' % (self._tag, rule, inst), detail, where, key=key)

    def undecided(self, rule, inst, detail, where=None):
        if self._skip(rule) or (self._inst is not None and not self._inst(str(inst))):
            return
        self._c.undecided(self._rule, '%s:%s:%s' % (self._tag, rule, inst), detail, where)

    def anchor(self, cond, what):
        return self._c.anchor(cond, what)

    def body(self, path):
        return self._c.body(path)

    def where(self, *a, **k):
        return self._c.where(*a, **k)

    def info_note(self, *a, **k):
        pass


CMP_O = '<erltf::term::OwnedTerm as core::cmp::Ord>::cmp'
CMP_B = "<erltf::borrowed::BorrowedTerm<'a> as core::cmp::Ord>::cmp"


def map_key_order_rules(ctx, rule, which=('owned', 'borrowed')):
    """distinct terms are never Equal under the order that keys decoded maps"""
    P = ctx.P
    sub = SubCtx(ctx, rule, 'order')
    roots = [r for r, w in ((CMP_O, 'owned'), (CMP_B, 'borrowed')) if w in which and r in ctx.F.bodies]
    ctx.anchor(bool(roots), 'Ord::cmp of the term type(s)')
    for p_ in sorted({q for r in roots for q in P.reachable_from([r]) if ctx.F.bodies[q]['crate'] == 'erltf'}):
        before = len(ctx.records)
        k = check_self_compare(sub, P.B(p_), 'no-self-compare')
        if k and len(ctx.records) == before:
            sub.ok('no-self-compare', p_, '%d comparison(s), operands mirror each other' % k)
    check_bigint_truncation(sub, P, 'bigint-truncation')
    structural_equality(sub, 'structural-eq')
    # the recipes of C12 (rank table, big integers by sign / length / digits from the most significant end, tuples, lists, maps)
    from .props import c12
    c12.run(sub)


def structural_equality(ctx, rule):
    """`==` on the term types is structural: derived, or hand-written without going through the order. The decoders use `==`
    to decide shapes (`tail == Nil`), and the order calls some different terms Equal (documented catch-all arms)."""
    P = ctx.P
    for ty in ('erltf::term::OwnedTerm', 'erltf::borrowed::BorrowedTerm'):
        imps = [i for i in P.F.impls if i['self'].startswith(ty) and (i.get('trait') or '') == 'core::cmp::PartialEq']
        short = ty.rsplit('::', 1)[1]
        if not imps:
            ctx.undecided(rule, short, 'no PartialEq impl found')
            continue
        if imps[0].get('derived'):
            ctx.ok(rule, short, 'PartialEq is derived (variant by variant, field by field)')
            continue
        via_order = []
        for it in imps[0]['items']:
            for B_ in [P.B(q) for q in P.F.bodies if q.split('::{')[0] == it]:
                for bb, t in B_.calls():
                    from .core import callee_names
                    if any(n.endswith('::cmp') or n.endswith('::partial_cmp') for n in callee_names(t)) and any(ty in str(x) for x in (t.get('aty') or [])):
                        via_order.append((B_, bb))
        if via_order:
            ctx.bad(rule, short, '%s == is defined through the order (cmp() == Equal): every pair the order lumps together (its catch-all arms: an improper list and [], a binary and a bit-string ...) '
                    'becomes equal, and decoder logic such as `tail == OwnedTerm::Nil` silently changes meaning' % short, ctx.where(via_order[0][0], via_order[0][1]),
                    key='EQ:%s:eq-through-order' % ty)
        else:
            ctx.ok(rule, short, 'hand-written PartialEq that does not go through the order')
