"""Field order agreement between an encoder and the decoders of one structure.

The encoder of a structure T writes T's fields in some order; a parser reads values in wire order and hands them to
T's constructor.  The k-th value read must land in the field the encoder writes k-th: two fields of the same wire type
swapped at the constructor call type-check and decode to a different value (and re-encode to different bytes).
Nothing here depends on names of local variables: the constructor's parameter->field map comes from its body, the
read rank of an argument from the data flow of the parser, the write order from the encoder's success paths."""
from .core import callee_of, callee_names
from .ranges import canon


def ctor_summary(P, ctor):
    """{param index (0-based): field name} for a constructor whose body builds the struct from its parameters"""
    B = P.B(ctor)
    if B is None:
        return None
    out = {}
    for bb, j, st in B.stmts():
        if st['k'] == '=' and st['rv']['k'] == 'agg' and st['rv'].get('ak') == 'adt' and st['rv'].get('fn'):
            if not (st['pl']['l'] == 0 or 0 in B.derived_locals([st['pl']['l']])):
                continue
            for name, op in zip(st['rv']['fn'], st['rv']['ops']):
                c = canon(B, op)
                a = _arg_root(c)
                if a is not None:
                    out[a - 1] = name
    return out or None


def _arg_root(c):
    if isinstance(c, tuple) and c:
        if c[0] == 'arg':
            return c[1]
        if c[0] == 'place' and isinstance(c[1], tuple) and c[1] and c[1][0] == 'arg' and not [x for x in c[2] if x != '*']:
            return c[1][1]
    return None


def fields_mentioned(c, argi, out=None):
    """struct fields of parameter `argi` that occur in a canonical value (first projection after derefs)"""
    if out is None:
        out = []
    if isinstance(c, tuple):
        if len(c) >= 3 and c[0] == 'place' and c[1] == ('arg', argi):
            for x in c[2]:
                if isinstance(x, str) and x != '*' and not x.startswith('as:') and not x[0].isdigit():
                    if x not in out:
                        out.append(x)
                    break
                if x != '*':
                    break
        for x in c:
            fields_mentioned(x, argi, out)
    elif isinstance(c, list):
        for x in c:
            fields_mentioned(x, argi, out)
    return out


def rpo_index(B):
    seen, order = set(), []
    stack = [(0, iter(B.succ(0)))]
    seen.add(0)
    while stack:
        n, it = stack[-1]
        for s in it:
            if s not in seen:
                seen.add(s)
                stack.append((s, iter(B.succ(s))))
                break
        else:
            order.append(n)
            stack.pop()
    order.reverse()
    return {b: i for i, b in enumerate(order)}


def is_read_call(t, dec_prefix):
    from .wire import prim_of
    p = prim_of(t)
    if p is not None and p[0] == 'r':
        return True
    for n in callee_names(t):
        if n.startswith(dec_prefix) or n.startswith('nom::'):
            return True
    return False


def _first_field(pl):
    for e in pl.get('p') or []:
        if isinstance(e, dict) and 'f' in e:
            return e['f']
    return None


def reads_behind(B, op, is_read, limit=4000):
    """blocks of the read calls in the backward data slice of an operand.  Field-sensitive for tuples and struct literals:
    `let (x, y) = (b, a)` sends x to b only.  A read call ends the walk (what it consumed before is not this value)."""
    out = set()
    if op is None or op['k'] not in ('cp', 'mv'):
        return out
    seen = set()
    work = [(op['pl']['l'], _first_field(op['pl']))]
    defs = B.defs()
    partial = {}
    for bb, j, st in B.stmts():
        if st['k'] == '=' and st['pl'].get('p'):
            partial.setdefault(st['pl']['l'], []).append(st)
    steps = 0
    while work and steps < limit:
        steps += 1
        l, fi = work.pop()
        if (l, fi) in seen:
            continue
        seen.add((l, fi))

        def follow(o, carry=None):
            if o is None or o['k'] not in ('cp', 'mv'):
                return
            f2 = _first_field(o['pl'])
            work.append((o['pl']['l'], f2 if f2 is not None else carry))
            for e in o['pl'].get('p') or []:
                if isinstance(e, dict) and 'idx' in e:
                    work.append((e['idx'], None))
        for st in partial.get(l, []):
            f0 = _first_field(st['pl'])
            if fi is not None and f0 is not None and f0 != fi:
                continue
            for o in _rv_ops(st['rv']):
                follow(o)
        for d in defs.get(l, []):
            if d[0] == 't':
                t = d[3]
                if is_read(t):
                    out.add(d[1])
                    continue
                for a in t['args']:
                    follow(a)
                continue
            rv = d[3]['rv']
            k = rv['k']
            if k == 'agg':
                ops = rv['ops']
                if fi is not None and fi < len(ops) and rv.get('ak') in ('tuple', 'adt'):
                    follow(ops[fi])
                else:
                    for o in ops:
                        follow(o)
            elif k in ('use', 'cast', 'repeat'):
                follow(rv['op'], carry=fi)
            elif k in ('ref', 'rawptr', 'discr'):
                follow({'k': 'cp', 'pl': rv['pl']}, carry=fi)
            elif k == 'bin':
                follow(rv['a'])
                follow(rv['b'])
            elif k == 'un':
                follow(rv['a'])
    return out


def _rv_ops(rv):
    k = rv['k']
    if k in ('use', 'cast', 'repeat'):
        return [rv['op']]
    if k in ('ref', 'rawptr', 'discr'):
        return [{'k': 'cp', 'pl': rv['pl']}]
    if k == 'bin':
        return [rv['a'], rv['b']]
    if k == 'un':
        return [rv['a']]
    if k == 'agg':
        return list(rv['ops'])
    return []


def decoder_field_ranks(P, B, bb_call, summary, dec_prefix):
    """{field: rank of the wire read its constructor argument derives from} for the constructor call at bb_call"""
    t = B.blocks[bb_call]['t']
    rpo = rpo_index(B)
    is_read = lambda c: is_read_call(c, dec_prefix) and bool(c.get('dst'))
    nreads = sum(1 for bb, c in B.calls() if bb != bb_call and is_read(c))
    out = {}
    for i, a in enumerate(t['args']):
        if i not in summary:
            continue
        rs = [rpo[b] for b in reads_behind(B, a, is_read) if b in rpo and b != bb_call]
        if rs:
            out[summary[i]] = max(rs)
    return out, nreads


def encoder_field_orders(P, fn, argi):
    """per success path: list of fields of parameter argi in the order of their first write"""
    from .etf import writer_events, _flatten_buffers
    B, seqs, trunc = writer_events(P, fn)
    outs = []

    def walk(ev, acc):
        if isinstance(ev, tuple) and ev and ev[0] in ('w', 'call'):
            t = B.blocks[ev[-1]]['t']
            for a in t['args'][1:]:
                for f in fields_mentioned(canon(B, a), argi):
                    if f not in acc:
                        acc.append(f)
        elif isinstance(ev, tuple) and ev and ev[0] == 'rep':
            for x in ev[1]:
                walk(x, acc)
    for seq in sorted(seqs, key=str):
        acc = []
        for ev in _flatten_buffers(seq):
            walk(ev, acc)
        if acc not in outs:
            outs.append(acc)
    return outs


def encoders_of(P, adt, enc_prefix):
    """[(encoder fn, 1-based param index)] whose parameter is &adt"""
    out = []
    for p, b in P.F.bodies.items():
        if not p.startswith(enc_prefix) or b['kind'] != 'Fn':
            continue
        for i in range(1, b.get('argc', 0) + 1):
            ty = b['locals'][i]['ty']
            if ty in ('&' + adt, adt, '&mut ' + adt) or (ty.startswith("&'") and ty.endswith(' ' + adt)):
                out.append((p, i))
    return out


def check_field_order(ctx, rule, dec_prefix='erltf::decoder::', enc_prefix='erltf::encoder::', types_prefix='erltf::types::'):
    """every parser hands the k-th value it reads to the field the encoder writes k-th"""
    P = ctx.P
    n = 0
    for p in sorted(q for q in ctx.F.bodies if q.startswith(dec_prefix) and ctx.F.bodies[q]['kind'] in ('Fn',)):
        B = P.B(p)
        for bb, t in B.calls():
            g = callee_of(t)[0] or ''
            if not (g.startswith(types_prefix) and g.endswith('::new')):
                continue
            summ = ctor_summary(P, g)
            if not summ or len(summ) < 2:
                continue
            adt = g[:-len('::new')]
            encs = encoders_of(P, adt, enc_prefix)
            if not encs:
                continue
            ranks, nreads = decoder_field_ranks(P, B, bb, summ, dec_prefix)
            inst = '%s:%s' % (p.rsplit('::', 1)[1], adt.rsplit('::', 1)[1])
            bad = []
            compared = 0
            for efn, ai in encs:
                for eo in encoder_field_orders(P, efn, ai):
                    for i, f in enumerate(eo):
                        for h in eo[i + 1:]:
                            if f in ranks and h in ranks and ranks[f] != ranks[h]:
                                compared += 1
                                if ranks[f] > ranks[h] and (f, h) not in bad:
                                    bad.append((f, h))
            if compared == 0:
                continue
            n += 1
            if bad:
                ctx.bad(rule, inst, '%s writes %s; %s hands the value read at the wire position of `%s` to the field `%s` and vice versa: the fields come back exchanged'
                        % (encs[0][0].rsplit('::', 1)[1], ', '.join('`%s` before `%s`' % x for x in bad), p.rsplit('::', 1)[1], bad[0][0], bad[0][1]),
                        ctx.where(B, bb), key='ORDER:%s:%s:%s' % (p, adt.rsplit('::', 1)[1], '+'.join('%s/%s' % x for x in bad)))
            else:
                ctx.ok(rule, inst, '%d field pairs in the encoder\'s order (%d reads)' % (compared, nreads), ctx.where(B, bb))
    return n
