"""./check <Cxx> [--tier quick|thorough] — evaluate one property's rules.

Exit 0: every obligation of the property's structural clauses is discharged on
/repo's current tree (known findings are printed as KNOWN-FINDING lines).
Exit 1: a `VIOLATION property=<id> replay=<path>` line per unlisted violation.
"""
import sys, os, json, time, importlib, traceback

from . import extract
from .facts import Facts
from .core import Program

VERIF = extract.VERIF


class Ctx:
    def __init__(self, pid, tier, facts, info):
        self.pid = pid
        self.tier = tier
        self.F = facts
        self.P = Program(facts)
        self.info = info
        self.records = []      # every obligation: dict(rule, inst, verdict, detail, where)
        self.rules = {}        # rule -> {'desc':..., 'floor':..., 'count':...}
        self.notes = []

    # -- declaring rules ---------------------------------------------------
    def rule(self, name, desc, floor=None):
        self.rules.setdefault(name, {'desc': desc, 'floor': floor, 'count': 0})
        if floor is not None:
            self.rules[name]['floor'] = floor

    def _rec(self, rule, inst, verdict, detail, where=None, key=None):
        if rule not in self.rules:
            self.rule(rule, '')
        self.rules[rule]['count'] += 1
        self.records.append({'rule': rule, 'instance': inst, 'verdict': verdict,
                             'detail': detail, 'where': where, 'key': key})

    def ok(self, rule, inst, detail='', where=None):
        self._rec(rule, inst, 'HOLDS', detail, where)

    def bad(self, rule, inst, detail, where=None, key=None):
        """A violation. key (without line numbers) identifies the construct."""
        if key is None:
            key = '%s:%s' % (rule, inst)
        key = key.replace(' ', '_')      # keys are single tokens (known_findings.txt is whitespace-separated)
        self._rec(rule, inst, 'VIOLATION', detail, where, key)

    def undecided(self, rule, inst, detail, where=None):
        self._rec(rule, inst, 'UNDECIDED', detail, where)

    def info_note(self, text):
        self.notes.append(text)

    def anchor(self, cond, what):
        """Fail closed when an anchor (function, field, table) is not found."""
        if not cond:
            self._rec('ANCHOR', what, 'VIOLATION', 'anchor not found: ' + what, None, 'ANCHOR:' + what)
        return bool(cond)

    def body(self, path):
        """Anchor-checked body lookup."""
        b = self.P.B(path)
        self.anchor(b is not None, path)
        return b

    def where(self, B, bb=None, ln=None):
        if B is None:
            return None
        if ln is None and bb is not None:
            ln = B.blocks[bb]['t']['ln']
        if ln is None:
            ln = B.b['line']
        return '%s:%s' % (B.b['file'], ln)


def load_known():
    path = os.path.join(VERIF, 'known_findings.txt')
    known = {}
    if os.path.exists(path):
        for line in open(path):
            line = line.strip()
            if not line.startswith('finding:'):
                continue
            rest = line[len('finding:'):].strip()
            parts = rest.split(None, 2)
            pid = parts[0].split('=', 1)[1]
            key = parts[1].split('=', 1)[1]
            desc = parts[2] if len(parts) > 2 else ''
            known.setdefault(pid, {})[key] = desc
    return known


def main(argv):
    if len(argv) < 1:
        print('usage: check <Cxx> [--tier quick|thorough]')
        return 2
    pid = argv[0]
    tier = os.environ.get('VERIF_TIER', 'quick')
    if '--tier' in argv:
        tier = argv[argv.index('--tier') + 1]
    if tier not in ('quick', 'thorough'):
        tier = 'quick'
    seed = int(os.environ.get('VERIF_SEED', '0') or 0)
    t0 = time.time()
    ev_path = os.path.join(os.environ.get('VERIF_EVIDENCE_DIR', os.path.join(VERIF, 'evidence')), pid + '.json')
    os.makedirs(os.path.dirname(ev_path), exist_ok=True)
    if os.path.exists(ev_path):
        os.unlink(ev_path)

    try:
        facts_dir, info = extract.ensure_facts()
    except RuntimeError as e:
        print('ERROR: fact extraction failed: %s' % e)
        print('VIOLATION property=%s replay=%s#EXTRACT' % (pid, ev_path))
        _write_evidence(ev_path, pid, tier, seed, t0, None, [], [], {'error': str(e)[:2000]}, 1)
        return 1
    facts = Facts(facts_dir)
    from .ranges import Ranges
    Ranges.FNS = facts.fns
    ctx = Ctx(pid, tier, facts, info)
    try:
        ctx.FX = Facts(extract.ensure_fixture_facts())
        ctx.PX = Program(ctx.FX)
    except RuntimeError as e:
        print('ERROR: fixture extraction failed: %s' % e)
        ctx.FX = None
        ctx.PX = None
        ctx._rec('ENGINE', 'fixture', 'VIOLATION', str(e)[-800:], None, 'ENGINE:fixture')
    mod = importlib.import_module('sa.props.' + pid.lower())
    # a rule that never terminates must fail the check, not hang it (rules of one property re-run rules of others)
    import signal

    def _too_long(signum, frame):
        raise RuntimeError('rule evaluation exceeded %d s' % limit)
    limit = int(os.environ.get('VERIF_RULE_TIMEOUT', '900'))
    try:
        signal.signal(signal.SIGALRM, _too_long)
        signal.alarm(limit)
    except (ValueError, AttributeError):
        pass
    try:
        from . import selftest
        selftest.run(ctx)
        mod.run(ctx)
    except Exception:
        tb = traceback.format_exc()
        print(tb)
        ctx._rec('ENGINE', 'exception', 'VIOLATION', tb[-1500:], None, 'ENGINE:exception')
    try:
        signal.alarm(0)
    except (ValueError, AttributeError):
        pass
    if tier == 'thorough':
        try:
            from . import thorough
            thorough.run(ctx, mod, Ctx)
            if hasattr(mod, 'run_thorough'):
                mod.run_thorough(ctx)
        except Exception:
            tb = traceback.format_exc()
            print(tb)
            ctx._rec('ENGINE', 'exception-thorough', 'VIOLATION', tb[-1500:], None, 'ENGINE:exception-thorough')

    # floors: a rule that matches fewer instances than confirmed by hand fails closed
    for name, r in list(ctx.rules.items()):
        if r['floor'] is not None and r['count'] < r['floor']:
            ctx._rec('FLOOR', name, 'VIOLATION',
                     'rule %s matched %d instances, floor %d' % (name, r['count'], r['floor']),
                     None, 'FLOOR:' + name)

    known = load_known().get(pid, {})
    viol, kf = [], []
    for r in ctx.records:
        if r['verdict'] == 'VIOLATION':
            if r['key'] in known:
                r['verdict'] = 'KNOWN-FINDING'
                kf.append(r)
            else:
                viol.append(r)
    seen = set()
    for r in kf:
        if r['key'] in seen:
            continue
        seen.add(r['key'])
        print('KNOWN-FINDING: property=%s %s  [%s] %s' % (pid, r['key'], r.get('where') or '', known[r['key']]))
    seen = set()
    for r in viol:
        if r['key'] in seen:
            continue
        seen.add(r['key'])
        print('VIOLATION property=%s replay=%s#%s' % (pid, ev_path, r['key']))
        print('    rule=%s instance=%s at %s\n    %s' % (r['rule'], r['instance'], r.get('where'), r['detail']))
    und = [r for r in ctx.records if r['verdict'] == 'UNDECIDED']
    _write_evidence(ev_path, pid, tier, seed, t0, ctx, viol, kf, {}, len(viol))
    nh = sum(1 for r in ctx.records if r['verdict'] == 'HOLDS')
    print('%s %s: %d obligations, %d hold, %d known findings, %d undecided, %d violations (%.1fs)' % (
        pid, tier, len(ctx.records), nh, len(kf), len(und), len(viol), time.time() - t0))
    return 1 if viol else 0


def _write_evidence(path, pid, tier, seed, t0, ctx, viol, kf, extra, nviol):
    cov = {
        'explanation': ('Static analysis of the type-checked MIR (rustc mir_built) of /repo\'s current tree: '
                        'every enumerated obligation of the structural clauses listed in DESIGN.md for %s is '
                        'evaluated; the clauses are necessary conditions of the behavioural property, the '
                        'behaviour itself is not decided.' % pid),
        'trusted_base': ['rustc nightly MIR construction and name/type resolution',
                         'engine/mirfacts fact model', 'sa/ rule code', 'spec/ tables transcribed from OTP docs',
                         'external crates summarised by API (nom complete parsers, bytes::Buf, tokio, flate2)'],
        'checker_cmd': './check %s --tier %s' % (pid, tier),
        'exhaustive': True,
    }
    if ctx is not None:
        recs = ctx.records
        cov['obligations'] = len(recs)
        cov['discharged'] = sum(1 for r in recs if r['verdict'] == 'HOLDS')
        cov['known_findings'] = sorted({r['key'] for r in kf})
        cov['undecided'] = [{'rule': r['rule'], 'instance': r['instance'], 'detail': r['detail']}
                            for r in recs if r['verdict'] == 'UNDECIDED']
        cov['violations'] = [{'key': r['key'], 'rule': r['rule'], 'instance': r['instance'],
                              'where': r['where'], 'detail': r['detail']} for r in viol]
        cov['rules'] = {k: {'description': v['desc'], 'instances': v['count'], 'floor': v['floor']}
                        for k, v in ctx.rules.items()}
        cov['samples'] = [{'rule': r['rule'], 'instance': r['instance'], 'verdict': r['verdict'],
                           'where': r['where'], 'detail': r['detail'][:300]} for r in recs[:400]]
        cov['evaluations'] = len(recs)
        cov['distinct_nontrivial'] = len({(r['rule'], r['instance']) for r in recs})
        cov['rule'] = 'one case = one (rule, instance) obligation enumerated from the MIR facts; all are non-trivial'
        cov['analysed'] = {
            'crates': sorted(ctx.F.crates.keys()),
            'bodies': len(ctx.F.bodies),
            'blocks': sum(len(b['blocks']) for b in ctx.F.bodies.values()),
            'source_hash': ctx.info.get('source_hash'),
            'source_files': ctx.info.get('source_files'),
            'fresh_extraction': ctx.info.get('fresh_extraction'),
        }
        cov['notes'] = ctx.notes
    else:
        cov['samples'] = [extra]
        cov['evaluations'] = 1
        cov['distinct_nontrivial'] = 2
    ev = {
        'property_id': pid, 'tier': tier, 'seed': seed, 'level': 'other',
        'coverage': cov,
        'assumptions': ['default 64-bit target', 'features as unified by the workspace build',
                        'external crate internals trusted'],
        'wall_s': round(time.time() - t0, 2),
        'violations': nviol,
    }
    with open(path, 'w') as fh:
        json.dump(ev, fh, indent=1)


if __name__ == '__main__':
    sys.exit(main(sys.argv[1:]))
