"""Abstract interpretation of a two-argument comparator over enum discriminants only.

walk(B, vs, vo, ranks) simulates the comparator body with the variants of `self` and
`other` known, interpreting only discriminant reads, mem::discriminant equality, the
rank function and Ordering values.  It stops at the first value-dependent operation
(the arm) or at the return.
"""
from .core import callee_of, callee_names

ORD = {'Less': -1, 'Equal': 0, 'Greater': 1}
PURE_VIEWS = ('as_bytes', 'as_ref', 'as_slice', 'as_str', 'deref', 'borrow', 'as_deref')
ORD_NAME = {-1: 'Less', 0: 'Equal', 1: 'Greater'}


class Stop(Exception):
    pass


def _resolve_place(env, pl):
    """abstract value a place denotes, or None"""
    v = env.get(pl['l'])
    for e in pl.get('p') or []:
        if v is None:
            return None
        if e == '*':
            if v[0] == 'ref':
                v = ('val', v[1])
            elif v[0] == 'ptr':
                v = v[1]
            else:
                return None
        elif isinstance(e, dict) and 'f' in e:
            if v[0] == 'tuple' and e['f'] < len(v[1]):
                v = v[1][e['f']]
            else:
                return None     # a field of the term itself: value-dependent
        elif isinstance(e, dict) and 'dc' in e:
            return None
        else:
            return None
    return v


def walk(B, vs, vo, rank_fn=None, ranks=None, max_steps=400, arg_map=None):
    """Returns dict(kind='const', value=..) | dict(kind='compares', bb=.., calls=[..]) | dict(kind='unknown', why=..).
    rank_fn: path (or set of paths) of the ranking function / closure; ranks: variant index -> rank."""
    env = {1: ('ref', 'S'), 2: ('ref', 'O')} if arg_map is None else {k: ('ref', v) for k, v in arg_map.items()}
    rank_fns = set([rank_fn] if isinstance(rank_fn, str) else (rank_fn or []))
    disc = {'S': vs, 'O': vo}
    bb = 0
    result = None
    steps = 0
    rank_eq = [False]      # the path passed a rank comparison that answered Equal (what follows is the same-rank logic)
    while steps < max_steps:
        steps += 1
        blk = B.blocks[bb]
        for st in blk['s']:
            if st['k'] != '=':
                continue
            pl = st['pl']
            rv = st['rv']
            k = rv['k']
            val = None
            if k == 'use':
                op = rv['op']
                if op['k'] == 'c':
                    val = ('const', op.get('v')) if 'v' in op else ('unit',)
                else:
                    val = _resolve_place(env, op['pl'])
            elif k == 'ref':
                inner = _resolve_place(env, rv['pl'])
                if inner is not None and inner[0] == 'val':
                    val = ('ref', inner[1])
                elif not rv['pl'].get('p'):
                    val = ('ptr', env.get(rv['pl']['l']))
                elif inner is not None:
                    val = ('ptr', inner)
            elif k == 'discr':
                inner = _resolve_place(env, rv['pl'])
                if inner is not None and inner[0] == 'val' and inner[1] in disc:
                    val = ('int', disc[inner[1]])
                elif inner is not None and inner[0] == 'ord':
                    val = ('int', inner[1])
                elif inner is not None and inner[0] == 'int':
                    val = inner
                elif inner is not None and inner[0] == 'enumc':
                    val = ('int', inner[2])
            elif k == 'agg':
                if rv['ak'] == 'tuple':
                    vals = []
                    for o in rv['ops']:
                        vals.append(_resolve_place(env, o['pl']) if o['k'] != 'c' else ('const', o.get('v')))
                    val = ('tuple', vals)
                elif rv['ak'] == 'adt' and rv.get('adt') == 'core::cmp::Ordering':
                    val = ('ord', ORD[rv['var']])
                elif rv['ak'] == 'adt' and 'vi' in rv:
                    # a variant literal of some enum: its kind is known even when its payload is not (a rank written as an enum;
                    # Some(view) / None answered by a helper that looks at the variant only)
                    val = ('enumc', rv.get('adt'), rv['vi'])
            if not pl.get('p'):
                if pl['l'] == 0:
                    if val is not None and val[0] == 'ord':
                        result = ('const', ORD_NAME[val[1]])
                    elif val is not None and val[0] == 'const':
                        result = ('constint', val[1])
                    else:
                        return {'kind': 'unknown', 'why': 'return value assigned from a non-constant at bb%d' % bb, 'bb': bb}
                env[pl['l']] = val
        t = blk['t']
        tk = t['k']
        if tk in ('goto', 'falseedge', 'falseunwind', 'drop'):
            bb = t['t']
            continue
        if tk == 'ret':
            if result is not None:
                return {'kind': 'const', 'value': result[1], 'rank_equal': rank_eq[0]}
            return {'kind': 'unknown', 'why': 'returned without a recognised value'}
        if tk == 'switch':
            d = t['d']
            v = _resolve_place(env, d['pl']) if d['k'] != 'c' else ('int', d.get('v'))
            if v is None or v[0] not in ('int', 'bool', 'const'):
                # branching on something value-dependent: this is already the arm's own logic
                return {'kind': 'compares', 'bb': bb, 'calls': [], 'why': 'branches on a value'}
            iv = v[1]
            if isinstance(iv, bool):
                iv = 1 if iv else 0
            tgt = None
            for cv, cb in t['cases']:
                if cv == iv:
                    tgt = cb
            bb = tgt if tgt is not None else t['else']
            continue
        if tk == 'call':
            g, r = callee_of(t)
            args = t['args']
            av = [(_resolve_place(env, a['pl']) if a['k'] != 'c' else ('const', a.get('v'))) for a in args]
            val = None
            if g == 'core::mem::discriminant' and av and av[0] is not None and av[0][0] == 'ref':
                val = ('disc', disc[av[0][1]])
            elif g == 'core::cmp::PartialEq::eq' and len(av) == 2 and all(a is not None and a[0] == 'ptr' and a[1] is not None and a[1][0] == 'disc' for a in av):
                val = ('bool', av[0][1][1] == av[1][1][1])
            elif rank_fns and (g in rank_fns or r in rank_fns) and ranks is not None:
                who = None
                for a in av:
                    if a is not None and a[0] == 'ref':
                        who = a[1]
                    elif a is not None and a[0] == 'tuple' and a[1] and a[1][0] is not None and a[1][0][0] == 'ref':
                        who = a[1][0][1]
                if who is None:
                    return {'kind': 'unknown', 'why': 'rank call argument not recognised'}
                val = ('rank', ranks.get(disc[who]))
            elif g == 'core::intrinsics::discriminant_value' and av and av[0] is not None and av[0][0] in ('ptr', 'ref') and isinstance(av[0][1], tuple) and av[0][1][0] == 'enumc':
                val = ('int', av[0][1][2])       # derived Ord / PartialOrd of a fieldless enum compare the declaration positions
            elif g == 'core::cmp::Ord::cmp' and len(av) == 2 and all(a is not None and a[0] == 'ptr' and a[1] is not None and a[1][0] == 'int' and isinstance(a[1][1], int) for a in av):
                a_, b_ = av[0][1][1], av[1][1][1]
                val = ('ord', (a_ > b_) - (a_ < b_))
                if a_ == b_:
                    rank_eq[0] = True
            elif g == 'core::cmp::Ord::cmp' and len(av) == 2 and all(a is not None and a[0] == 'ptr' and a[1] is not None and a[1][0] == 'rank' for a in av):
                a_, b_ = av[0][1][1], av[1][1][1]
                if a_ is None or b_ is None:
                    return {'kind': 'unknown', 'why': 'rank unknown'}
                val = ('ord', (a_ > b_) - (a_ < b_))
                if a_ == b_:
                    rank_eq[0] = True
            elif (g or '').rsplit('::', 1)[-1] in PURE_VIEWS and len(args) == 1 and isinstance(t.get('t'), int):
                # a view of the value (as_bytes, as_ref, deref ...): nothing is compared yet; the result is opaque
                val = None
            else:
                names = [n for n in (g, r) if n]
                return {'kind': 'compares', 'bb': bb, 'calls': names, 'args': av}
            if not t['dst'].get('p'):
                env[t['dst']['l']] = val
                if t['dst']['l'] == 0 and val is not None and val[0] == 'ord':
                    result = ('const', ORD_NAME[val[1]])
            if val is not None and val[0] == 'bool':
                env[t['dst']['l']] = ('int', 1 if val[1] else 0)
            bb = t['t']
            continue
        return {'kind': 'unknown', 'why': 'terminator %s' % tk}
    return {'kind': 'unknown', 'why': 'step limit'}


def rank_table(B, nvariants):
    """variant index -> constant returned by a one-argument ranking function (or closure)"""
    out = {}
    # a closure receives itself as argument 1 and the term as argument 2
    amap = {2: 'S'} if B.b['kind'] == 'Closure' else {1: 'S'}
    for v in range(nvariants):
        r = walk(B, v, 0, arg_map=amap)
        if r['kind'] == 'const':
            out[v] = r['value']
        else:
            out[v] = None
    return out


def fingerprint(B, rename=None):
    """Structural fingerprint of a body: statements and terminators with spans erased and function
    paths mapped through rename (a list of (from, to) prefixes)."""
    import json

    import re

    def rn(s):
        if not isinstance(s, str):
            return s
        s = re.sub(r'\{closure@[^}]*\}', '{closure}', s)
        for a, b in (rename or []):
            s = s.replace(a, b)
        return s

    def clean(x):
        if isinstance(x, dict):
            return {k: clean(v) for k, v in x.items() if k not in ('ln', 'x', 'd')}
        if isinstance(x, list):
            return [clean(v) for v in x]
        return rn(x)
    live = sorted(B.live_blocks())
    return json.dumps([[clean(B.blocks[i]['s']), clean(B.blocks[i]['t'])] for i in live], sort_keys=True)


def op_bag(B, rename=None, blocks=None):
    """Order- and shape-independent summary of a body: the multiset of operations it performs (callees, binary/unary
    operators with their constant operands, casts, aggregate kinds, constants switched on).  Two bodies with the same
    bag perform the same operations on renamed locals in some control structure; statement order, temporaries and
    block layout do not matter."""
    import re
    from collections import Counter

    def rn(x):
        x = str(x)
        x = re.sub(r'\{closure@[^}]*\}', '{closure}', x)
        x = re.sub(r'\{closure#\d+\}', '{closure}', x)
        for a, b in (rename or []):
            x = x.replace(a, b)
        return x
    bag = Counter()
    for i in sorted(B.live_blocks()):
        if blocks is not None and i not in blocks:
            continue
        blk = B.blocks[i]
        for st in blk['s']:
            if st['k'] != '=':
                continue
            rv = st['rv']
            k = rv['k']
            if k == 'bin':
                cs = tuple(sorted(str(o.get('v')) for o in (rv['a'], rv['b']) if o['k'] == 'c' and 'v' in o))
                bag[('bin', rv['op'], cs)] += 1
            elif k == 'un':
                bag[('un', rv['op'])] += 1
            elif k == 'cast':
                bag[('cast', rv.get('ck'), rv.get('from'), rv.get('to'))] += 1
            elif k == 'agg':
                bag[('agg', rv.get('ak'), rn(rv.get('adt')), rv.get('var'))] += 1
            elif k == 'use' and rv['op']['k'] == 'c' and ('v' in rv['op'] or 's' in rv['op']):
                bag[('const', str(rv['op'].get('v', rv['op'].get('s'))))] += 1
        t = blk['t']
        if t['k'] == 'call':
            g = t.get('fn') or {}
            from .core import callee_of
            g, r = callee_of(t)
            cs = tuple(sorted(str(a.get('v', a.get('s'))) for a in t['args'] if a['k'] == 'c' and ('v' in a or 's' in a)))
            bag[('call', rn(g or r), cs)] += 1
        elif t['k'] == 'switch':
            bag[('switch', t.get('dty'), tuple(sorted(v for v, _ in t['cases'])))] += 1
        elif t['k'] == 'assert':
            bag[('assert', t.get('msg', ''))] += 1
    return bag
