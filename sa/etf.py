"""Shared extraction for the External Term Format properties (C01, C03, C10, C13, C14):
dispatch tables of the two decoders and of the encoder, per-tag wire signatures,
constructed variants."""
import json, os
from .core import callee_of, callee_names, exclusive_blocks, fold
from .wire import signature, fmt_sig, io_events, error_blocks, success_sequences

SPEC = os.path.join(os.path.dirname(os.path.dirname(os.path.abspath(__file__))), 'spec', 'etf_tags.json')
DEC = 'erltf::decoder::'
OWNED = 'erltf::term::OwnedTerm'
BORROWED = 'erltf::borrowed::BorrowedTerm'

SUBCALLS_R = {DEC + 'parse_term': ('term',), DEC + 'parse_term_borrowed': ('term',)}


def load_spec():
    return json.load(open(SPEC))


def is_parser_sig(sig):
    import re
    if not sig:
        return False
    out = re.sub(r"'[a-z_]+ ", '', sig['output'])
    return out.startswith('core::result::Result<(&[u8], ')


def variants_built(P, fn_path, adt):
    """variants of adt constructed on success paths of fn (and nested closures)"""
    from .families import bodies_of_fn
    out = set()
    B = P.B(fn_path)
    if B is None:
        return out
    # only terms that flow into the return value (not elements built in closures, not comparison constants)
    for bb, j, st in B.stmts():
        if st['k'] == '=' and st['rv']['k'] == 'agg' and st['rv'].get('adt') == adt:
            if 0 in B.derived_locals([st['pl']['l']]) or st['pl']['l'] == 0:
                out.add(st['rv']['var'])
    return out


def dispatch_table(ctx, fn_path, adt):
    """tag -> dict(parser, sigs, variants, error_arm, bb) for a `match tag {..}` dispatcher"""
    P = ctx.P
    B = ctx.body(fn_path)
    if B is None:
        return None, None
    sw = None
    for i in sorted(B.live_blocks()):
        t = B.blocks[i]['t']
        if t['k'] == 'switch' and t['dty'] == 'u8' and len(t['cases']) >= 10:
            sw = i
            break
    if not ctx.anchor(sw is not None, fn_path + ':match tag'):
        return None, B
    t = B.blocks[sw]['t']
    starts = sorted({b for _, b in t['cases']} | {t['else']})
    excl = exclusive_blocks(B, starts)
    err = error_blocks(B)
    table = {}
    for v, b in t['cases']:
        blocks = excl[b]
        parser = None
        for bb in sorted(blocks):
            tt = B.blocks[bb]['t']
            if tt['k'] == 'call':
                for n in callee_names(tt):
                    if n.startswith(DEC + 'parse_') and is_parser_sig(ctx.F.fns.get(n)) and parser is None:
                        parser = n
        ent = {'parser': parser, 'bb': b}
        if parser is not None and parser not in (DEC + 'parse_term', DEC + 'parse_term_borrowed'):
            PB = P.B(parser)
            sigs, tr = signature(PB, subcalls=SUBCALLS_R)
            ent['sigs'] = sigs
            ent['variants'] = variants_built(P, parser, adt)
            ent['error_arm'] = False
        else:
            # inline arm: events of the arm's own blocks; error arm when every path of the arm is an error
            evs = []
            for bb in sorted(blocks):
                evs += [e for e in io_events(B, bb, detail=False, subcalls=SUBCALLS_R)]
            ok_blocks = [bb for bb in blocks if any(st['k'] == '=' and st['pl']['l'] == 0 and st['rv']['k'] == 'agg' and st['rv'].get('var') == 'Ok'
                                                   for st in B.blocks[bb]['s'])]
            ent['error_arm'] = not ok_blocks
            ent['sigs'] = {tuple((e[1],) if e[0] in ('r', 'w') else (str(e[0]),) for e in evs)}
            vs = set()
            for bb in blocks:
                for st in B.blocks[bb]['s']:
                    if st['k'] == '=' and st['rv']['k'] == 'agg' and st['rv'].get('adt') == adt:
                        vs.add(st['rv']['var'])
            ent['variants'] = vs
            ent['parser'] = None
        table[v] = ent
    return table, B
