"""Shared extraction for the External Term Format properties (C01, C03, C10, C13, C14):
dispatch tables of the two decoders and of the encoder, per-tag wire signatures,
constructed variants."""
import json, os
from .core import callee_of, callee_names, exclusive_blocks, fold
from .wire import signature, fmt_sig, io_events, error_blocks, success_sequences

SPEC = os.path.join(os.path.dirname(os.path.dirname(os.path.abspath(__file__))), 'spec', 'etf_tags.json')
DEC = 'erltf::decoder::'
OWNED = 'erltf::term::OwnedTerm'
BORROWED = 'erltf::borrowed::BorrowedTerm'

SUBCALLS_R = {DEC + 'parse_term': ('term',), DEC + 'parse_term_borrowed': ('term',)}


def load_spec():
    return json.load(open(SPEC))


def is_parser_sig(sig):
    import re
    if not sig:
        return False
    out = re.sub(r"'[a-z_]+ ", '', sig['output'])
    return out.startswith('core::result::Result<(&[u8], ')


def variants_built(P, fn_path, adt):
    """variants of adt constructed on success paths of fn (and nested closures)"""
    from .families import bodies_of_fn
    out = set()
    B = P.B(fn_path)
    if B is None:
        return out
    # only terms that flow into the return value (not elements built in closures, not comparison constants)
    for bb, j, st in B.stmts():
        if st['k'] == '=' and st['rv']['k'] == 'agg' and st['rv'].get('adt') == adt:
            if 0 in B.derived_locals([st['pl']['l']]) or st['pl']['l'] == 0:
                out.add(st['rv']['var'])
    return out


def dispatch_table(ctx, fn_path, adt):
    """tag -> dict(parser, sigs, variants, error_arm, bb) for a `match tag {..}` dispatcher"""
    P = ctx.P
    B = ctx.body(fn_path)
    if B is None:
        return None, None
    sw = None
    for i in sorted(B.live_blocks()):
        t = B.blocks[i]['t']
        if t['k'] == 'switch' and t['dty'] == 'u8' and len(t['cases']) >= 10:
            sw = i
            break
    if not ctx.anchor(sw is not None, fn_path + ':match tag'):
        return None, B
    t = B.blocks[sw]['t']
    starts = sorted({b for _, b in t['cases']} | {t['else']})
    excl = exclusive_blocks(B, starts)
    err = error_blocks(B)
    table = {}
    for v, b in t['cases']:
        blocks = excl[b]
        parser = None
        for bb in sorted(blocks):
            tt = B.blocks[bb]['t']
            if tt['k'] == 'call':
                for n in callee_names(tt):
                    if n.startswith(DEC + 'parse_') and is_parser_sig(ctx.F.fns.get(n)) and parser is None:
                        parser = n
        ent = {'parser': parser, 'bb': b, 'blocks': set(blocks), 'host': B}
        if parser is not None and parser not in (DEC + 'parse_term', DEC + 'parse_term_borrowed'):
            PB = P.B(parser)
            sigs, tr = signature(PB, subcalls=SUBCALLS_R)
            ent['sigs'] = sigs
            ent['variants'] = variants_built(P, parser, adt)
            ent['error_arm'] = False
        else:
            # inline arm: events of the arm's own blocks; error arm when every path of the arm is an error
            evs = []
            for bb in sorted(blocks):
                evs += [e for e in io_events(B, bb, detail=False, subcalls=SUBCALLS_R)]
            ok_blocks = [bb for bb in blocks if any(st['k'] == '=' and st['rv']['k'] == 'agg' and st['rv'].get('var') == 'Ok' and str(st['rv'].get('adt')) == 'core::result::Result'
                                                   and (st['pl']['l'] == 0 or 0 in B.derived_locals([st['pl']['l']])) for st in B.blocks[bb]['s'])]
            ent['error_arm'] = not ok_blocks
            ent['sigs'] = {tuple((e[1],) if e[0] in ('r', 'w') else (str(e[0]),) for e in evs)}
            if len(evs) > 1 or any(e[0] in ('r', 'w') and e[1] == 'bytes' for e in evs):
                # an arm that reads several things (a parser spliced into the dispatcher): the events in path order, with their references
                try:
                    sg, _tr = signature(B, subcalls=SUBCALLS_R, start=b, region=blocks)
                    if sg:
                        ent['sigs'] = sg
                except Exception:
                    pass
            vs = set()
            for bb in blocks:
                for st in B.blocks[bb]['s']:
                    if st['k'] == '=' and st['rv']['k'] == 'agg' and st['rv'].get('adt') == adt:
                        vs.add(st['rv']['var'])
            ent['variants'] = vs
            ent['parser'] = None
        table[v] = ent
    return table, B


# ------------------------------------------------------------------- encoder side ----
ENC = 'erltf::encoder::'


def encoder_fns(F):
    return [p for p in F.bodies if p.startswith(ENC + 'encode_') and F.bodies[p]['kind'] == 'Fn']


def writer_events(P, fn):
    """raw success sequences of an encoder function with buffer identity and sub-encoder calls as events"""
    from .ranges import canon
    from .families import describe
    from .wire import prim_of, _val, _len_of
    B = P.B(fn)
    encs = set(encoder_fns(P.F))

    def ev(B_, bb):
        t = B_.blocks[bb]['t']
        if t['k'] != 'call':
            return []
        p = prim_of(t)
        if p is not None and p[0] == 'w':
            buf = describe(B_, canon(B_, t['args'][0]))
            d, w, m = p
            val = t['args'][1] if len(t['args']) > 1 else None
            if w == 'bytes':
                ln = _len_of(B_, val) if val is not None else None
                return [('w', 'bytes', ln if isinstance(ln, int) else (_val(B_, val) if val is not None else None), buf, bb)]
            if w == 'push':
                return []
            return [('w', w, _val(B_, val) if val is not None else None, buf, bb)]
        for n in callee_names(t):
            if n in encs and n != fn or (n in encs and n == fn):
                buf = describe(B_, canon(B_, t['args'][0])) if t['args'] else '?'
                arg = describe(B_, canon(B_, t['args'][1])) if len(t['args']) > 1 else None
                return [('call', n, arg, buf, bb)]
        return []
    seqs, trunc = success_sequences(B, ev)
    return B, seqs, trunc


def _flatten_buffers(seq):
    """a function that builds part of its output in a temporary buffer and then appends that buffer:
    splice the temporary's events where the buffer is written."""
    bufs = {}
    for e in seq:
        if isinstance(e, tuple) and e and e[0] in ('w', 'call'):
            bufs.setdefault(e[3], []).append(e)
        elif isinstance(e, tuple) and e and e[0] == 'rep':
            inner = [x for x in e[1] if isinstance(x, tuple) and x and x[0] in ('w', 'call')]
            if inner:
                bufs.setdefault(inner[0][3], []).append(e)
    if len(bufs) <= 1:
        return list(seq)
    # main buffer = the one that receives a bytes-write whose value names another buffer
    names = list(bufs)
    main = None
    for b in names:
        for e in bufs[b]:
            if e[0] == 'w' and e[1] == 'bytes' and any(str(e[2]) == o or str(e[2]).startswith(o) for o in names if o != b):
                main = b
    if main is None:
        return list(seq)
    out = []
    for e in bufs[main]:
        if e[0] == 'w' and e[1] == 'bytes' and any(str(e[2]) == o for o in names if o != main):
            out += bufs[str(e[2])]
        else:
            out.append(e)
    return out


def writer_paths(P, fn):
    """list of dict(tag, items, first_call) for each success path of an encoder function.
    items: normalised layout AFTER the tag byte in the notation of wire.fmt_sig."""
    import re
    B, seqs, trunc = writer_events(P, fn)
    out = []
    for seq in sorted(seqs, key=str):
        flat = _flatten_buffers(seq)
        if not flat:
            out.append({'tag': None, 'layout': '', 'first_call': None, 'raw': ()})
            continue
        first = flat[0]
        if first[0] == 'call':
            out.append({'tag': None, 'layout': None, 'first_call': first[1], 'raw': tuple(flat)})
            continue
        if first[0] == 'rep':
            out.append({'tag': None, 'layout': None, 'first_call': None, 'raw': tuple(flat)})
            continue
        tag = first[2] if (first[0] == 'w' and first[1] == 'u8' and isinstance(first[2], int)) else None
        items = flat[1:] if tag is not None else flat
        lens = {}       # collection name -> index of the item that wrote its length
        layout = []

        def name_of_len(v):
            m = re.findall(r'len\(([^()]*(?:\([^()]*\))?[^()]*)\)', str(v))
            return m[0] if m else None
        for i, e in enumerate(items):
            if e[0] == 'w' and e[1] == 'fill':
                # the same as a loop writing one byte `count` times
                from .ranges import canon as _canon_f
                from .families import describe as _describe_f
                t_ = B.blocks[e[-1]]['t']
                layout.append('rep[range:%s](u8)' % (_describe_f(B, _canon_f(B, t_['args'][2])) if len(t_['args']) > 2 else '?'))
            elif e[0] == 'w' and e[1] not in ('bytes',):
                nm = name_of_len(e[2]) if e[2] is not None else None
                if nm:
                    lens[nm] = i
                layout.append(e[1])
            elif e[0] == 'w' and e[1] == 'bytes':
                v = e[2]
                if isinstance(v, int):
                    layout.append('bytes[%d]' % v)
                else:
                    key = None
                    for nm, idx in lens.items():
                        if str(v) == nm or str(v).startswith(nm) or nm.startswith(str(v)) or re.sub(r'^index\(|\(.*$', '', str(v)) == nm:
                            key = idx
                    if key is None and lens:
                        # slice of something whose length was written: bytes[x[..n]] with n written
                        for nm, idx in lens.items():
                            if nm in str(v):
                                key = idx
                    if key is None:
                        # bytes[ x[..n] ] where n itself was written by an earlier item
                        from .ranges import canon as _canon
                        t_ = B.blocks[e[-1]]['t']
                        if len(t_['args']) > 1:
                            o_ = B.origin(t_['args'][1])
                            while o_[0] == 'cast':
                                o_ = o_[3]
                            if o_[0] == 'call' and o_[1] and o_[1].endswith('::index'):
                                it_ = B.blocks[o_[2]]['t']
                                ro = B.origin(it_['args'][1])
                                if ro[0] == 'agg' and ro[1].get('adt', '').endswith('RangeTo'):
                                    endc = _canon(B, ro[1]['ops'][0])
                                    for k2, e2 in enumerate(items[:i]):
                                        if e2[0] == 'w' and e2[1] != 'bytes':
                                            t2 = B.blocks[e2[-1]]['t']
                                            c2 = _canon(B, t2['args'][1])
                                            for _k in range(4):
                                                if c2[0] == 'cast':
                                                    c2 = c2[2]
                                                elif c2[0] == 'place' and isinstance(c2[1], tuple) and c2[1][0] == 'call' and (str(c2[1][1]).endswith('::try_from') or str(c2[1][1]).endswith('::try_into')) \
                                                        and tuple(c2[2]) == ('as:Ok', '0'):
                                                    # a checked conversion hands the value on unchanged
                                                    c2 = _canon(B, B.blocks[c2[1][2]]['t']['args'][0])
                                                elif c2[0] == 'payload' and isinstance(c2[1], tuple) and c2[1][0] == 'call' and (str(c2[1][1]).endswith('::try_from') or str(c2[1][1]).endswith('::try_into')):
                                                    # (the Ok payload of a checked conversion, as canon writes it since `match f() { Ok(v) .. }` and `f()?` are one thing)
                                                    c2 = _canon(B, B.blocks[c2[1][2]]['t']['args'][0])
                                                else:
                                                    break
                                            if c2 == endc:
                                                key = k2
                    layout.append('bytes[%s]' % ('#%d' % key if key is not None else '?'))
            elif e[0] == 'call':
                layout.append('term')
            elif e[0] == 'rep':
                inner = []
                coll = None
                for x in e[1]:
                    if x[0] == 'call':
                        inner.append('term')
                    elif x[0] == 'w':
                        inner.append(x[1])
                # which collection does the loop walk?  from the value descriptions: next(...) hides it;
                # use loop_bound on the body
                from .wire import loop_bound, _sccs
                ref = '?'
                bb0 = e[1][0][-1] if e[1] else None
                if bb0 is not None:
                    comps = _sccs(B, B.live_blocks())
                    for c in comps:
                        if bb0 in c and (len(c) > 1):
                            lb = loop_bound(B, set(c))
                            if lb and lb[0] == 'iter':
                                from .wire import _short_o
                                cname = _short_o(B, lb[1])
                                for nm, idx in lens.items():
                                    if nm == cname or nm.endswith(cname) or cname.endswith(nm):
                                        ref = '#%d' % idx
                                if ref == '?':
                                    ref = 'iter:' + cname
                            elif lb and lb[0] == 'range':
                                from .families import describe
                                ref = 'range:' + describe(B, lb[1])
                layout.append('rep[%s](%s)' % (ref, ' '.join(inner)))
        out.append({'tag': tag, 'layout': ' '.join(layout), 'first_call': None, 'raw': tuple(flat)})
    return out


def tags_of(P, fn, _seen=None):
    """set of tags an encoder function can emit as the first byte (following leading sub-encoder calls)"""
    if _seen is None:
        _seen = set()
    if fn in _seen:
        return set()
    _seen.add(fn)
    out = set()
    for p in writer_paths(P, fn):
        if p['tag'] is not None:
            out.add(p['tag'])
        elif p['first_call']:
            out |= tags_of(P, p['first_call'], _seen)
    return out


def encoder_dispatch(ctx):
    """OwnedTerm variant -> encoder function called by encode_term_impl"""
    B = ctx.body(ENC + 'encode_term_impl')
    if B is None:
        return None
    sw = None
    for i in sorted(B.live_blocks()):
        sd = B.switch_on_discr(i)
        if sd and OWNED in sd[1]:
            sw = (i, sd)
            break
    if not ctx.anchor(sw is not None, ENC + 'encode_term_impl:match term'):
        return None
    i, (pl, ty, cases, els) = sw
    starts = sorted({b for _, b in cases})
    excl = exclusive_blocks(B, starts)
    vs = [v['n'] for v in ctx.F.adts[OWNED]['variants']]
    encs = set(encoder_fns(ctx.F))
    table = {}
    for v, b in cases:
        fns = []
        for bb in sorted(excl[b]):
            t = B.blocks[bb]['t']
            if t['k'] == 'call':
                for n in callee_names(t):
                    if n in encs:
                        fns.append(n)
        table[vs[v]] = fns[0] if fns else None
    return table


# ------------------------------------------------------------------- atom interning tables ----
def atom_intern_tables(P):
    """(pairs, names): COMMON_ATOMS as [(text, index)] and CACHED_ATOMS as [text by position], both read from the
    MIR of their initialisers; None for a table that is absent or not of the recognised shape."""
    pairs = names = None
    CB = P.B('erltf::types::COMMON_ATOMS')
    if CB is not None:
        tup = {}
        arr = None
        for bb, j, st in CB.stmts():
            if st['k'] == '=' and st['rv']['k'] == 'agg' and st['rv']['ak'] == 'tuple' and len(st['rv']['ops']) == 2 \
                    and all(o['k'] == 'c' for o in st['rv']['ops']) and 's' in st['rv']['ops'][0] and 'v' in st['rv']['ops'][1]:
                tup[st['pl']['l']] = (st['rv']['ops'][0]['s'], st['rv']['ops'][1]['v'])
            if st['k'] == '=' and st['rv']['k'] == 'agg' and st['rv']['ak'] == 'array' and st['pl']['l'] == 0:
                arr = [o['pl']['l'] for o in st['rv']['ops'] if o['k'] in ('cp', 'mv')]
        if arr is not None and all(l in tup for l in arr):
            pairs = [tup[l] for l in arr]
    SB = P.B('erltf::types::CACHED_ATOMS')
    if SB is not None:
        arr = None
        for bb, j, st in SB.stmts():
            if st['k'] == '=' and st['rv']['k'] == 'agg' and st['rv']['ak'] == 'array' and st['pl']['l'] == 0:
                arr = [o['pl']['l'] for o in st['rv']['ops'] if o['k'] in ('cp', 'mv')]
        if arr is not None:
            out = []
            for l in arr:
                d = SB.single_def(l)
                text = None
                if d and d[0] == 't':
                    vp = SB.origin(d[3]['args'][0]) if d[3]['args'] else None
                    # the argument is a closure coerced to fn(): find the closure aggregate among the defs feeding it
                    cur = d[3]['args'][0] if d[3]['args'] else None
                    cdef = None
                    for _ in range(4):
                        if cur is None or cur.get('k') not in ('cp', 'mv'):
                            break
                        dd = SB.single_def(cur['pl']['l'])
                        if dd is None or dd[0] != 's':
                            break
                        rv = dd[3]['rv']
                        if rv['k'] == 'agg' and rv['ak'] == 'closure':
                            cdef = rv['def']
                            break
                        cur = rv.get('op')
                    if cdef and P.B(cdef) is not None:
                        CBc = P.B(cdef)
                        for b2, t2 in CBc.calls():
                            for a in t2['args']:
                                if a['k'] == 'c' and 's' in a:
                                    text = a['s']
                        if text is None and pairs is not None:
                            # the text is taken from the other table: COMMON_ATOMS[k].0 with a constant k
                            for b2, j2, st2 in CBc.stmts():
                                if st2['k'] != '=' or st2['rv']['k'] != 'use' or st2['rv']['op']['k'] not in ('cp', 'mv'):
                                    continue
                                pl2 = st2['rv']['op']['pl']
                                idxs = [e['idx'] for e in (pl2.get('p') or []) if isinstance(e, dict) and 'idx' in e]
                                base_def = CBc.single_def(pl2['l'])
                                from_table = base_def is not None and base_def[0] == 's' and base_def[3]['rv']['k'] == 'use' and \
                                    str(base_def[3]['rv']['op'].get('item', '')).endswith('COMMON_ATOMS')
                                if from_table and len(idxs) == 1:
                                    kdef = CBc.single_def(idxs[0])
                                    if kdef is not None and kdef[0] == 's' and kdef[3]['rv']['k'] == 'use' and 'v' in kdef[3]['rv']['op']:
                                        k_ = kdef[3]['rv']['op']['v']
                                        if 0 <= k_ < len(pairs):
                                            text = pairs[k_][0]
                out.append(text)
            names = out
    return pairs, names


def check_atom_tables(ctx, rule):
    """Atom::new interns a few common atoms through two parallel tables; they must agree entry by entry."""
    pairs, names = atom_intern_tables(ctx.P)
    if pairs is None and names is None:
        ctx.info_note('no atom interning tables (COMMON_ATOMS / CACHED_ATOMS) in this tree')
        return
    if pairs is None or names is None or any(n is None for n in names):
        ctx.undecided(rule, 'atom-intern-tables', 'interning tables present but not of the recognised shape')
        return
    bad = [(t, i) for t, i in pairs if not (0 <= i < len(names)) or names[i] != t]
    dup = sorted({t for t, i in pairs if sum(1 for t2, _ in pairs if t2 == t) > 1})
    if bad:
        t, i = bad[0]
        if not (0 <= i < len(names)):
            ctx.bad(rule, 'atom-intern-tables', 'COMMON_ATOMS sends %r to entry %d of CACHED_ATOMS, which has only %d entries: Atom::new(%r) - i.e. decoding or constructing that atom - indexes out of bounds and panics'
                    % (t, i, len(names), t), ctx.where(ctx.P.B('erltf::types::COMMON_ATOMS')), key='TABLE:erltf::types::COMMON_ATOMS:%s->%d' % (t, i))
        else:
            ctx.bad(rule, 'atom-intern-tables', 'Atom::new(%r) is interned as entry %d of CACHED_ATOMS, which holds %r: every occurrence of the atom %r (decoded or constructed) silently becomes %r'
                    % (t, i, names[i], t, names[i]), ctx.where(ctx.P.B('erltf::types::COMMON_ATOMS')), key='TABLE:erltf::types::COMMON_ATOMS:%s->%d' % (t, i))
    elif dup:
        ctx.bad(rule, 'atom-intern-tables', 'COMMON_ATOMS lists %s twice' % dup, key='TABLE:erltf::types::COMMON_ATOMS:duplicate')
    else:
        ctx.ok(rule, 'atom-intern-tables', 'all %d entries of COMMON_ATOMS point at the CACHED_ATOMS entry with the same text' % len(pairs), ctx.where(ctx.P.B('erltf::types::COMMON_ATOMS')))


# ------------------------------------------------------------------- identifier fields verbatim ----
def check_identifier_fields_verbatim(ctx, rule):
    """The numbers of a pid / port / reference are opaque to the receiver: every parser hands the integers it read
    to the constructor unchanged (widening casts only). Masking, shifting or any arithmetic maps distinct identifiers
    of the peer onto one local value."""
    from .ranges import canon
    from .families import describe
    P = ctx.P
    ctors = ('erltf::types::ExternalPid::new', 'erltf::types::ExternalPort::new', 'erltf::types::ExternalReference::new')
    n = 0
    for p in sorted(q for q in ctx.F.bodies if q.startswith(DEC) and ctx.F.bodies[q]['kind'] in ('Fn', 'Closure')):
        B = P.B(p)
        for bb, t in B.calls():
            g = callee_of(t)[0]
            if g not in ctors:
                continue
            n += 1
            inst = '%s:%s' % (p.rsplit('::', 1)[1], g.rsplit('::', 2)[-2])
            changed = []
            for i, a in enumerate(t['args']):
                ty = (t.get('aty') or [''] * 9)[i] if i < len(t.get('aty') or []) else ''
                if ty not in ('u8', 'u16', 'u32', 'u64'):
                    continue
                c = canon(B, a)
                cur = c
                while isinstance(cur, tuple) and cur and cur[0] == 'cast':
                    cur = cur[-1] if isinstance(cur[-1], tuple) else cur[1]
                if isinstance(cur, tuple) and cur and cur[0] in ('bin', 'un'):
                    changed.append((i, describe(B, c)))
            if changed:
                ctx.bad(rule, inst, 'argument(s) %s of the constructor are computed from the wire value (%s) instead of being passed on unchanged: identifiers of the peer that differ in the dropped bits become the same local identifier'
                        % ([i for i, _ in changed], '; '.join(d for _, d in changed)), ctx.where(B, bb), key='PROV:%s:identifier-field-modified' % p)
            else:
                ctx.ok(rule, inst, 'integers read from the wire reach the constructor unchanged', ctx.where(B, bb))
    return n


# ------------------------------------------------------------------- scalars verbatim ----
def check_scalars_verbatim(ctx, rule):
    """A number read from the wire becomes the value of the term unchanged: the operand of every Float(..) / Integer(..)
    built in a parser is the value a nom number parser returned (or a from_str / from_be_bytes of it for the text and
    big forms), possibly widened - not the result of further arithmetic or of a "normalising" helper."""
    from .ranges import canon
    from .families import describe
    P = ctx.P
    n = 0
    for p in sorted(q for q in ctx.F.bodies if q.startswith(DEC + 'parse_') and ctx.F.bodies[q]['kind'] == 'Fn'):
        B = P.B(p)
        for bb, j, st in B.stmts():
            if not (st['k'] == '=' and st['rv']['k'] == 'agg' and st['rv'].get('adt') in (OWNED, BORROWED) and st['rv'].get('var') in ('Float', 'Integer')):
                continue
            if not (0 in B.derived_locals([st['pl']['l']]) or st['pl']['l'] == 0):
                continue
            op = st['rv']['ops'][0]
            c = canon(B, op)
            cur = c
            while isinstance(cur, tuple) and cur and cur[0] == 'cast':
                cur = cur[-1] if isinstance(cur[-1], tuple) else cur[1]
            n += 1
            inst = '%s:%s' % (p.rsplit('::', 1)[1], st['rv']['var'])
            txt = str(cur)
            from_wire = isinstance(cur, tuple) and cur and cur[0] == 'place' and 'nom::number::' in txt
            parsed_text = 'from_str' in txt or '::parse' in txt
            if from_wire or parsed_text:
                ctx.ok(rule, inst, 'value = %s' % describe(B, c), ctx.where(B, bb))
            elif isinstance(cur, tuple) and cur and cur[0] in ('bin', 'un', 'call'):
                ctx.bad(rule, inst, 'the %s built by %s is not the number read from the wire but %s: some wire values decode to a different number / bit pattern (and re-encode to different bytes)'
                        % (st['rv']['var'], p.rsplit('::', 1)[1], describe(B, c)), ctx.where(B, bb), key='PROV:%s:%s-not-verbatim' % (p, st['rv']['var']))
            else:
                # a value that is EITHER what was read OR a constant chosen by a test on it (`if v == 0.0 { 0.0 } else { v }`): a normalisation
                defs_ = B.defs().get(cur[1], []) if isinstance(cur, tuple) and cur and cur[0] == 'local' else []
                consts_ = [d_ for d_ in defs_ if d_[0] == 's' and d_[3]['rv']['k'] == 'use' and d_[3]['rv']['op'].get('k') == 'c']
                if len(defs_) >= 2 and consts_:
                    ctx.bad(rule, inst, 'the %s built by %s is replaced by a constant on one branch (a "normalisation" of what was read): some wire values decode to a different bit pattern and re-encode to different bytes'
                            % (st['rv']['var'], p.rsplit('::', 1)[1]), ctx.where(B, bb), key='PROV:%s:%s-not-verbatim' % (p, st['rv']['var']))
                else:
                    ctx.undecided(rule, inst, 'origin of the value not recognised: %s' % describe(B, c))
    return n


# ------------------------------------------------------------------- validity ranges of wire fields ----
FIELD_RANGES = {
    # parser base name -> (index of the be_u8/be_u16/... read among the function's number reads, (lo, hi), what it is)
    'parse_bit_binary': (1, (1, 8), 'Bits of BIT_BINARY_EXT: number of significant bits in the last byte, 1..8 (8 for a whole byte)'),
    'parse_bit_binary_borrowed': (1, (1, 8), 'Bits of BIT_BINARY_EXT: number of significant bits in the last byte, 1..8 (8 for a whole byte)'),
}


def check_field_ranges(ctx, rule):
    """Fields the format restricts to a range are accepted for exactly that range: at every successful return of the
    parser the interval analysis gives the field precisely the format's range (a guard one too tight rejects valid input,
    one too loose accepts invalid input)."""
    from .ranges import Ranges
    P = ctx.P
    n = 0
    for name, (k, want, what) in sorted(FIELD_RANGES.items()):
        B = P.B(DEC + name)
        if B is None:
            continue
        reads = [(bb, t) for bb, t in B.calls() if (callee_of(t)[0] or '').startswith('nom::number::')]
        if len(reads) <= k:
            ctx.undecided(rule, name, 'field read not found')
            continue
        rbb, rt = reads[k]
        R = Ranges(B)
        oks = [bb for bb, j, st in B.stmts() if st['k'] == '=' and B.is_ret_slot(st['pl']['l']) and not st['pl'].get('p') and st['rv']['k'] == 'agg' and st['rv'].get('var') == 'Ok']
        got = None
        for ob in oks:
            for kk, vv in R.facts_at(ob).items():
                txt = str(kk)
                if ("', %d)" % rbb) in txt and isinstance(kk, tuple) and kk[0] == 'place' and kk[2] and kk[2][-1] == '1':
                    got = vv if got is None else (min(got[0], vv[0]), max(got[1], vv[1]))
        n += 1
        if got is None:
            ctx.undecided(rule, name, 'no range established for the field at the successful return')
        elif got == want:
            ctx.ok(rule, name, '%s: accepted for exactly [%d, %d]' % (what.split(':')[0], want[0], want[1]), ctx.where(B, rbb))
        else:
            ctx.bad(rule, name, '%s. The parser accepts [%s, %s]: %s' % (what, got[0], got[1],
                    'valid encodings are rejected' if (got[0] > want[0] or got[1] < want[1]) else 'invalid encodings are accepted'), ctx.where(B, rbb),
                    key='DOM:%s%s:field-range' % (DEC, name))
    return n


# ------------------------------------------------------------------- canonical small/large forms ----
SMALL_LARGE = {119: (118, 255, 'atom name bytes'), 104: (105, 255, 'tuple arity'), 115: (100, 255, 'atom name bytes')}


def check_canonical_forms(ctx, rule):
    """Where the format offers a short and a long form, the encoder uses the short one for everything that fits it and the long
    one only beyond: a term decoded from the short form is then written in the short form again (byte-identical re-encoding),
    and nothing that needs the long form is squeezed into the short one."""
    from .ranges import Ranges
    from .wire import prim_of
    P = ctx.P
    n = 0
    for fn in sorted(encoder_fns(ctx.F)):
        B = P.B(fn)
        R = None
        writes = {}
        for bb, t in B.calls():
            p = prim_of(t)
            if p and p[0] == 'w' and p[1] == 'u8' and len(t['args']) > 1 and t['args'][1]['k'] == 'c' and 'v' in t['args'][1]:
                writes.setdefault(t['args'][1]['v'], bb)
        for small, (large, mx, what) in SMALL_LARGE.items():
            if small not in writes or large not in writes:
                continue
            R = R or Ranges(B)
            fs, fl = R.facts_at(writes[small]), R.facts_at(writes[large])
            keys = [k for k in fs if k in fl and isinstance(k, tuple) and k and k[0] == 'len']
            n += 1
            inst = '%s:%d/%d' % (fn.rsplit('::', 1)[1], small, large)
            if not keys:
                ctx.undecided(rule, inst, 'no length guard common to the two forms found')
                continue
            k = keys[0]
            if fs[k][1] == mx and fl[k][0] == mx + 1:
                ctx.ok(rule, inst, 'short form for %s 0..=%d, long form from %d' % (what, mx, mx + 1), ctx.where(B, writes[large]))
            else:
                ctx.bad(rule, inst, 'the short form (tag %d) is used for %s up to %s and the long form (tag %d) from %s; the short form of the format holds up to %d: %s' % (
                    small, what, fs[k][1], large, fl[k][0], mx,
                    'a value of exactly %d is written in the long form, so a term received in the short form is not re-encoded byte-identically' % mx if fs[k][1] < mx else 'a value above %d is written with a one-byte length' % mx),
                    ctx.where(B, writes[large]), key='DOM:%s:threshold-%d-%d' % (fn, small, large))
    return n
