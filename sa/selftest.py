"""Every run proves that the zero-expected-count rule families can fire: the positive
fixtures (fixtures/positive) must be reported, their guarded twins must not."""
from .families import check_casts, check_panics, check_allocs, check_recursion, guard_flow, check_self_compare, bodies_of_fn, check_error_swallow
from .core import callee_names


class _Probe:
    """minimal ctx that just records verdicts"""
    def __init__(self):
        self.v = []

    def rule(self, *a, **k):
        pass

    def ok(self, rule, inst, detail='', where=None):
        self.v.append(('ok', inst))

    def bad(self, rule, inst, detail, where=None, key=None):
        self.v.append(('bad', inst))

    def undecided(self, rule, inst, detail, where=None):
        self.v.append(('undecided', inst))

    def where(self, *a, **k):
        return None


def run(ctx):
    PX = getattr(ctx, 'PX', None)
    ctx.rule('SELFTEST', 'the rule families report the deliberately violating fixtures and accept their guarded twins (a checker that cannot see a violation is broken)', floor=10)
    if PX is None:
        ctx.bad('SELFTEST', 'fixtures', 'fixture facts unavailable', key='ENGINE:selftest:no-fixtures')
        return
    cases = [
        ('CAST', 'posfix::bad_cast', 'posfix::good_cast', lambda p, B: check_casts(p, B, 'x')),
        ('PANIC', 'posfix::bad_index', 'posfix::good_index', lambda p, B: check_panics(p, B, 'x')),
        ('ALLOC', 'posfix::bad_alloc', 'posfix::good_alloc', lambda p, B: check_allocs(p, B, 'x')),
        ('CHARBOUND', 'posfix::bad_truncate', 'posfix::good_truncate', lambda p, B: check_panics(p, B, 'x', kinds=('partial', 'charbound'))),
    ]
    for fam, bad, good, fn in cases:
        for path, want in ((bad, 'bad'), (good, 'ok')):
            B = PX.B(path)
            if B is None:
                ctx.bad('SELFTEST', '%s:%s' % (fam, path), 'fixture function missing', key='ENGINE:selftest:%s:missing' % path)
                continue
            pr = _Probe()
            fn(pr, B)
            got = {v for v, _ in pr.v}
            if want == 'bad' and 'bad' in got:
                ctx.ok('SELFTEST', '%s:%s' % (fam, path), 'reported as expected')
            elif want == 'ok' and got and got <= {'ok'}:
                ctx.ok('SELFTEST', '%s:%s' % (fam, path), 'accepted as expected')
            else:
                ctx.bad('SELFTEST', '%s:%s' % (fam, path), 'rule family %s gave %s on the fixture, expected %s' % (fam, sorted(got), want), key='ENGINE:selftest:%s:%s' % (fam, path))
    # REC
    for path, want in (('posfix::bad_rec', 'bad'), ('posfix::good_rec', 'ok')):
        pr = _Probe()
        check_recursion(pr, PX, [path], 'x')
        got = {v for v, _ in pr.v}
        if (want == 'bad' and 'bad' in got) or (want == 'ok' and got <= {'ok'} and got):
            ctx.ok('SELFTEST', 'REC:' + path, 'as expected')
        else:
            ctx.bad('SELFTEST', 'REC:' + path, 'REC gave %s, expected %s' % (sorted(got), want), key='ENGINE:selftest:REC:%s' % path)
    # ERR: a swallowed error of a function of the same workspace
    for path, want in (('posfix::bad_swallow', 'bad'), ('posfix::good_swallow', 'ok')):
        pr = _Probe()
        check_error_swallow(pr, PX, 'x', (path,), workspace=('posfix::',))
        got = {v for v, _ in pr.v}
        if (want == 'bad' and 'bad' in got) or (want == 'ok' and got == {'ok'}):
            ctx.ok('SELFTEST', 'ERR:' + path, 'as expected')
        else:
            ctx.bad('SELFTEST', 'ERR:' + path, 'ERR gave %s, expected %s' % (sorted(got), want), key='ENGINE:selftest:ERR:%s' % path)
    # SELFCMP (the comparison sits in the then_with closure: the function's closures are scanned with it)
    for path, want in (('posfix::bad_selfcmp', 'bad'), ('posfix::good_selfcmp', 'ok')):
        pr = _Probe()
        n = sum(check_self_compare(pr, B, 'x') for B in bodies_of_fn(PX, path))
        got = {v for v, _ in pr.v}
        if n >= 2 and ((want == 'bad' and 'bad' in got) or (want == 'ok' and not got)):
            ctx.ok('SELFTEST', 'SELFCMP:' + path, 'as expected (%d comparisons scanned)' % n)
        else:
            ctx.bad('SELFTEST', 'SELFCMP:' + path, 'SELFCMP gave %s over %d comparisons, expected %s' % (sorted(got), n, want), key='ENGINE:selftest:SELFCMP:%s' % path)
    # LOCK
    for path, want in (('posfix::Counter::bad_unlocked', False), ('posfix::Counter::good_locked', True)):
        B = PX.B(path)
        if B is None:
            ctx.bad('SELFTEST', 'LOCK:' + path, 'fixture missing', key='ENGINE:selftest:%s:missing' % path)
            continue
        locks = [bb for bb, t in B.calls() if any(n.endswith('Mutex::<T>::lock') for n in callee_names(t))]
        acc = [bb for bb, t in B.calls() if any(n.endswith('::load') or n.endswith('::store') for n in callee_names(t))]
        held_all = True
        for a in acc:
            if not any(guard_flow(B, lb)[1].get(a) for lb in locks):
                held_all = False
        if held_all == want:
            ctx.ok('SELFTEST', 'LOCK:' + path, 'guard %s as expected' % ('held' if want else 'not held'))
        else:
            ctx.bad('SELFTEST', 'LOCK:' + path, 'LOCK analysis says held=%s, expected %s' % (held_all, want), key='ENGINE:selftest:LOCK:%s' % path)
