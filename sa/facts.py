"""Fact loader: MIR facts written by engine/mirfacts -> Python objects.

Everything downstream works on these plain dict/list structures:
  body['blocks'][i] = {'s': [stmts], 't': terminator}
  stmt  = {'k': '=', 'pl': place, 'rv': rvalue, 'ln': line}
  place = {'l': local, 'p': [proj...]}
  operand = {'k': 'cp'|'mv', 'pl': place} | {'k': 'c', 'ty':..., 'v'|'s'|'fn'|...}
"""
import json, os, glob


class Facts:
    def __init__(self, facts_dir, crates=None):
        self.crates = {}
        self.bodies = {}      # path -> body
        self.adts = {}        # path -> adt
        self.consts = {}      # path -> const
        self.fns = {}         # path -> fn signature record
        self.impls = []
        for f in sorted(glob.glob(os.path.join(facts_dir, '*.json'))):
            with open(f) as fh:
                d = json.load(fh)
            name = d['crate']
            if crates is not None and name not in crates:
                continue
            if d.get('test'):
                continue
            self.crates[name] = d
            for b in d['bodies']:
                b['crate'] = name
                self.bodies[b['path']] = b
            for a in d['adts']:
                a['crate'] = name
                self.adts[a['path']] = a
            for c in d['consts']:
                self.consts[c['path']] = c
            for fn in d['fns']:
                fn['crate'] = name
                self.fns[fn['path']] = fn
            for i in d['impls']:
                i['crate'] = name
                self.impls.append(i)

        self.inlined = []
        if crates is None:
            from .inline import normalise
            normalise(self)

    def body(self, path):
        return self.bodies.get(path)

    def find_bodies(self, pred):
        return [b for p, b in self.bodies.items() if pred(p)]

    def closures_of(self, root):
        return [b for b in self.bodies.values() if b['root'] == root and b['path'] != root]

    def variants(self, adt_path):
        a = self.adts[adt_path]
        return [v['n'] for v in a['variants']]


# ---------------------------------------------------------------- printing --

def fmt_place(pl, body=None):
    s = '_%d' % pl['l']
    if body is not None:
        n = body['locals'][pl['l']].get('n')
        if n:
            s = '%s{_%d}' % (n, pl['l'])
    for e in pl.get('p') or []:
        if e == '*':
            s = '(*%s)' % s
        elif isinstance(e, dict) and 'f' in e:
            s = '%s.%s' % (s, e['n'])
        elif isinstance(e, dict) and 'dc' in e:
            s = '(%s as %s)' % (s, e.get('n', e['dc']))
        elif isinstance(e, dict) and 'idx' in e:
            s = '%s[_%d]' % (s, e['idx'])
        elif isinstance(e, dict) and 'cidx' in e:
            s = '%s[%s%d]' % (s, '-' if e['from_end'] else '', e['cidx'])
        elif isinstance(e, dict) and 'sub_from' in e:
            s = '%s[%d..%s%d]' % (s, e['sub_from'], '-' if e['from_end'] else '', e['sub_to'])
        else:
            s = '%s.?' % s
    return s


def fmt_op(o, body=None):
    if o is None:
        return 'None'
    k = o['k']
    if k in ('cp', 'mv'):
        return ('move ' if k == 'mv' else '') + fmt_place(o['pl'], body)
    if k == 'c':
        if 'fn' in o:
            r = o['fn']
            if 'res' in o:
                r += ' => ' + o['res']
            return 'fn ' + r
        if 'v' in o:
            return 'const %d:%s' % (o['v'], o['ty'])
        if 's' in o:
            return 'const %r' % o['s']
        return 'const ' + o.get('d', '?')
    return '?' + o.get('d', '')


def fmt_rv(rv, body=None):
    k = rv['k']
    if k == 'use':
        return fmt_op(rv['op'], body)
    if k == 'ref':
        return ('&mut ' if rv.get('mut') else '&') + fmt_place(rv['pl'], body)
    if k == 'cast':
        return '%s as %s (%s from %s)' % (fmt_op(rv['op'], body), rv['to'], rv['ck'], rv['from'])
    if k == 'bin':
        return '%s(%s, %s)' % (rv['op'], fmt_op(rv['a'], body), fmt_op(rv['b'], body))
    if k == 'un':
        return '%s(%s)' % (rv['op'], fmt_op(rv['a'], body))
    if k == 'discr':
        return 'discriminant(%s)' % fmt_place(rv['pl'], body)
    if k == 'agg':
        ak = rv['ak']
        ops = ', '.join(fmt_op(o, body) for o in rv['ops'])
        if ak == 'adt':
            return '%s::%s{%s}' % (rv['adt'], rv['var'], ops)
        if ak in ('closure', 'coroutine', 'coroutine_closure'):
            return '%s %s [%s]' % (ak, rv['def'], ops)
        return '%s(%s)' % (ak, ops)
    if k == 'repeat':
        return '[%s; %s]' % (fmt_op(rv['op'], body), rv['n'])
    if k == 'rawptr':
        return '&raw ' + fmt_place(rv['pl'], body)
    return rv.get('d', k)


def fmt_term(t, body=None):
    k = t['k']
    if k == 'call':
        return '%s = %s(%s) -> bb%s [unwind %s]' % (
            fmt_place(t['dst'], body), fmt_op(t['f'], body),
            ', '.join(fmt_op(a, body) for a in t['args']), t.get('t'), t.get('u'))
    if k == 'switch':
        return 'switch %s [%s, else bb%d]' % (
            fmt_op(t['d'], body), ', '.join('%d:bb%d' % (v, b) for v, b in t['cases']), t['else'])
    if k == 'assert':
        return 'assert(%s == %s, %s %s) -> bb%d' % (
            fmt_op(t['cond'], body), t['exp'], t['mk'],
            [fmt_op(o, body) for o in t['mops']], t['t'])
    if k == 'drop':
        return 'drop(%s) -> bb%d' % (fmt_place(t['pl'], body), t['t'])
    if k in ('goto', 'falseunwind'):
        return '%s bb%d' % (k, t['t'])
    if k == 'falseedge':
        return 'falseedge bb%d (imag bb%d)' % (t['t'], t['imag'])
    if k == 'yield':
        return 'yield(%s) -> bb%d drop %s' % (fmt_op(t['v'], body), t['t'], t.get('drop'))
    return k


def dump_body(b):
    out = ['fn %s  [%s %s:%d argc=%d vis=%s]' % (b['path'], b['kind'], b['file'], b['line'], b['argc'], b.get('vis'))]
    for i, l in enumerate(b['locals']):
        out.append('  let %s_%d: %s%s' % ('mut ' if l.get('mut') else '', i, l['ty'], ('  // ' + l['n']) if l.get('n') else ''))
    for i, blk in enumerate(b['blocks']):
        out.append('bb%d%s:' % (i, ' (cleanup)' if blk.get('cleanup') else ''))
        for st in blk['s']:
            if st['k'] == '=':
                out.append('    %s = %s   // L%d' % (fmt_place(st['pl'], b), fmt_rv(st['rv'], b), st['ln']))
            elif st['k'] == 'setdiscr':
                out.append('    discriminant(%s) = %d' % (fmt_place(st['pl'], b), st['vi']))
        out.append('    -> %s   // L%d' % (fmt_term(blk['t'], b), blk['t']['ln']))
    return '\n'.join(out)


if __name__ == '__main__':
    import sys
    F = Facts(sys.argv[1])
    pat = sys.argv[2]
    for p, b in F.bodies.items():
        if pat in p:
            if len(sys.argv) > 3 and sys.argv[3] == '-l':
                print(p)
            else:
                print(dump_body(b))
                print()
