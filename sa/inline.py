"""Helper functions that did not exist on the reviewed tree are inlined into their callers before any rule looks at the program.

The rules were written against the functions of the reviewed tree (spec/known_fns.json lists them).  A behaviour-preserving
refactoring typically moves a guard, a lookup or a loop into a NEW helper function and calls it from the old place; a rule
that looks at the old function would then no longer see the guard (false alarm), and a rule that looks at every function
would see the helper without its caller's guards (false alarm again).  Inlining every call of a function that is not in the
known set - splicing the callee's MIR into the caller's CFG with fresh locals - restores the shape the rules know, whatever
the helper is called.  This is a purely syntactic CFG transformation of the facts: nothing is executed.

Not inlined: functions of the known set (rules may name them), recursive calls, `async fn`s (their body is a coroutine that
is polled, not called), functions of other crates than the workspace libraries, bodies larger than MAX_BLOCKS."""
import copy, json, os

WS = ('erltf', 'erltf_serde', 'edp_client', 'edp_node', 'edp_elixir_terms', 'erltf_serde_derive')
MAX_BLOCKS = 400
MAX_DEPTH = 4
VERIF = os.path.dirname(os.path.dirname(os.path.abspath(__file__)))


def load_known():
    p = os.path.join(VERIF, 'spec', 'known_fns.json')
    if not os.path.exists(p):
        return None
    return set(json.load(open(p))['fns'])


def _is_async_ctor(b):
    ty = b['locals'][0]['ty'] if b.get('locals') else ''
    return '{async' in ty or 'Coroutine' in ty or 'impl Future' in ty or 'impl core::future' in ty


def new_functions(F, known):
    out = set()
    for p, b in F.bodies.items():
        if b.get('crate') not in WS or b['kind'] not in ('Fn', 'AssocFn'):
            continue
        if p in known or _is_async_ctor(b) or len(b['blocks']) > MAX_BLOCKS:
            continue
        out.add(p)
    return out


def _ren(x, lo, bo, ret_local_map=None):
    """deep copy of a MIR json fragment with locals shifted by lo (blocks are renumbered by the caller)"""
    if isinstance(x, dict):
        y = {}
        for k, v in x.items():
            if k == 'l' and isinstance(v, int) and not isinstance(v, bool):
                y[k] = v + lo
            elif k == 'idx' and isinstance(v, int):
                y[k] = v + lo
            else:
                y[k] = _ren(v, lo, bo)
        return y
    if isinstance(x, list):
        return [_ren(v, lo, bo) for v in x]
    return x


def _ren_term(t, lo, bo):
    t2 = _ren(t, lo, bo)
    for k in ('t', 'u', 'else', 'drop', 'imag'):
        if isinstance(t.get(k), int):
            t2[k] = t[k] + bo
    if 'cases' in t:
        t2['cases'] = [[v, b + bo] for v, b in t['cases']]
    return t2


def _callee(t, newset):
    f = t.get('f') or {}
    if f.get('k') == 'c' and 'fn' in f:
        for n in (f.get('res'), f['fn']):
            if n and n in newset:
                return n
    return None


def inline_into(F, body, newset, stack=(), depth=0, closure_alias=None):
    """returns a new body in which calls to functions of newset are replaced by their (recursively inlined) bodies"""
    if depth > MAX_DEPTH:
        return body
    if not any(blk['t'].get('k') == 'call' and _callee(blk['t'], newset) for blk in body['blocks']):
        return body
    nb = dict(body)
    nb['locals'] = list(body['locals'])
    nb['blocks'] = [{'s': list(blk['s']), 't': dict(blk['t'])} for blk in body['blocks']]
    base = body['path'].split('::{')[0]
    i = 0
    while i < len(nb['blocks']):
        blk = nb['blocks'][i]
        t = blk['t']
        cal = _callee(t, newset) if t.get('k') == 'call' else None
        if not cal or cal in stack or cal == body.get('root') or len(nb['blocks']) > 6000:
            i += 1
            continue
        cb = inline_into(F, F.bodies[cal], newset, stack + (cal,), depth + 1, closure_alias)
        if len(t['args']) != cb.get('argc', 0) or t.get('t') is None:
            i += 1
            continue
        lo = len(nb['locals'])
        bo = len(nb['blocks'])
        nb['locals'] = nb['locals'] + [dict(l_) for l_ in cb['locals']]
        # parameters: _lo+k = argument k
        pre = []
        for k, a in enumerate(t['args']):
            pre.append({'k': '=', 'pl': {'l': lo + 1 + k, 'p': None}, 'rv': {'k': 'use', 'op': copy.deepcopy(a)}, 'ln': t.get('ln'), 'inl': cal})
        ret_to, unw_to, dst = t['t'], t.get('u'), t['dst']
        blk['s'] = blk['s'] + pre
        blk['t'] = {'k': 'goto', 't': bo, 'ln': t.get('ln'), 'inl': cal}
        for cblk in cb['blocks']:
            ss = [_ren(s_, lo, bo) for s_ in cblk['s']]
            # closures created by the helper: they now belong to the caller
            for s_ in ss:
                if s_.get('k') == '=' and s_['rv'].get('k') == 'agg' and s_['rv'].get('ak') == 'closure' and closure_alias is not None:
                    d_ = s_['rv'].get('def')
                    if d_ and d_.startswith(cal + '::{closure'):
                        alias = base + '::{closure#' + cal.rsplit('::', 1)[-1] + '.' + d_[len(cal) + len('::{closure#'):]
                        closure_alias[alias] = d_
                        s_['rv']['def'] = alias
            ct = cblk['t']
            if ct['k'] == 'ret':
                ss.append({'k': '=', 'pl': copy.deepcopy(dst), 'rv': {'k': 'use', 'op': {'k': 'mv', 'pl': {'l': lo, 'p': None}}}, 'ln': t.get('ln'), 'inl': cal})
                nt = {'k': 'goto', 't': ret_to, 'ln': ct.get('ln'), 'inl': cal}
            elif ct['k'] == 'resume':
                nt = {'k': 'goto', 't': unw_to, 'ln': ct.get('ln')} if isinstance(unw_to, int) else dict(ct)
            else:
                nt = _ren_term(ct, lo, bo)
            nb['blocks'].append({'s': ss, 't': nt})
        # do not advance: the spliced blocks are behind us (index >= bo), the current block is done
        i += 1
    nb['n_inlined'] = body.get('n_inlined', 0) + 1
    return nb


def normalise(F):
    """F.bodies after inlining every function that is not in the known set; returns the list of inlined helpers"""
    known = load_known()
    if known is None:
        return []
    newset = new_functions(F, known)
    if not newset:
        return []
    alias = {}
    out = {}
    for p, b in F.bodies.items():
        if p in newset:
            continue
        out[p] = inline_into(F, b, newset, (), 0, alias) if b.get('crate') in WS else b
    # closures of inlined helpers live on under the caller's name too
    for a, orig in alias.items():
        if orig in F.bodies and a not in out:
            c = dict(out.get(orig) or F.bodies[orig])
            c['path'] = a
            c['root'] = a.split('::{')[0]
            out[a] = c
    # closure bodies of the helpers themselves stay reachable under their own names (agg defs may still point at them)
    for p, b in F.bodies.items():
        if p not in out and p not in newset:
            out[p] = b
    F.bodies = out
    F.inlined = sorted(newset)
    return F.inlined
