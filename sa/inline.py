"""Helper functions that did not exist on the reviewed tree are inlined into their callers before any rule looks at the program.

The rules were written against the functions of the reviewed tree (spec/known_fns.json lists them).  A behaviour-preserving
refactoring typically moves a guard, a lookup or a loop into a NEW helper function and calls it from the old place; a rule
that looks at the old function would then no longer see the guard (false alarm), and a rule that looks at every function
would see the helper without its caller's guards (false alarm again).  Inlining every call of a function that is not in the
known set - splicing the callee's MIR into the caller's CFG with fresh locals - restores the shape the rules know, whatever
the helper is called.  This is a purely syntactic CFG transformation of the facts: nothing is executed.

Not inlined: functions of the known set (rules may name them), recursive calls, `async fn`s (their body is a coroutine that
is polled, not called), functions of other crates than the workspace libraries, bodies larger than MAX_BLOCKS."""
import copy, json, os

WS = ('erltf', 'erltf_serde', 'edp_client', 'edp_node', 'edp_elixir_terms', 'erltf_serde_derive')
MAX_BLOCKS = 1200
MAX_DEPTH = 4
VERIF = os.path.dirname(os.path.dirname(os.path.abspath(__file__)))


def load_known():
    p = os.path.join(VERIF, 'spec', 'known_fns.json')
    if not os.path.exists(p):
        return None
    return set(json.load(open(p))['fns'])


def _is_async_ctor(b):
    ty = b['locals'][0]['ty'] if b.get('locals') else ''
    return '{async' in ty or 'Coroutine' in ty or 'impl Future' in ty or 'impl core::future' in ty


def _is_rank_function(b):
    """one parameter, an integer result, and every assignment to the result is an integer constant chosen by the parameter's discriminant"""
    if b.get('argc') != 1 or b['locals'][0]['ty'] not in ('u8', 'u16', 'u32', 'usize', 'i32', 'i8'):
        return False
    consts = 0
    for blk in b['blocks']:
        if blk['t'].get('k') == 'call':
            return False
        for st in blk['s']:
            if st.get('k') == '=' and st['pl'].get('l') == 0 and not st['pl'].get('p'):
                if st['rv'].get('k') == 'use' and st['rv']['op'].get('k') == 'c' and isinstance(st['rv']['op'].get('v'), int):
                    consts += 1
                else:
                    return False
    return consts >= 4


def new_functions(F, known):
    out = set()
    for p, b in F.bodies.items():
        if b.get('crate') not in WS or b['kind'] not in ('Fn', 'AssocFn'):
            continue
        if p in known or len(b['blocks']) > MAX_BLOCKS:
            continue
        if _is_rank_function(b):
            continue      # a variant -> number table is looked at as a function (the comparator rules evaluate it per variant)
        out.add(p)
    return out


def _ren(x, lo, bo, ret_local_map=None):
    """deep copy of a MIR json fragment with locals shifted by lo (blocks are renumbered by the caller)"""
    if isinstance(x, dict):
        y = {}
        for k, v in x.items():
            if k == 'l' and isinstance(v, int) and not isinstance(v, bool):
                y[k] = v + lo
            elif k == 'idx' and isinstance(v, int):
                y[k] = v + lo
            else:
                y[k] = _ren(v, lo, bo)
        return y
    if isinstance(x, list):
        return [_ren(v, lo, bo) for v in x]
    return x


def _ren_term(t, lo, bo):
    t2 = _ren(t, lo, bo)
    for k in ('t', 'u', 'else', 'drop', 'imag'):
        if isinstance(t.get(k), int):
            t2[k] = t[k] + bo
    if 'cases' in t:
        t2['cases'] = [[v, b + bo] for v, b in t['cases']]
    return t2


def _callee(t, newset):
    f = t.get('f') or {}
    if f.get('k') == 'c' and 'fn' in f:
        for n in (f.get('res'), f['fn']):
            if n and n in newset:
                return n
    return None


def inline_into(F, body, newset, stack=(), depth=0, closure_alias=None):
    """returns a new body in which calls to functions of newset are replaced by their (recursively inlined) bodies"""
    if depth > MAX_DEPTH:
        return body
    if not any(blk['t'].get('k') == 'call' and _callee(blk['t'], newset) for blk in body['blocks']):
        return body
    nb = dict(body)
    nb['locals'] = list(body['locals'])
    nb['blocks'] = [{'s': list(blk['s']), 't': dict(blk['t'])} for blk in body['blocks']]
    base = body['path'].split('::{')[0]
    i = 0
    while i < len(nb['blocks']):
        blk = nb['blocks'][i]
        t = blk['t']
        cal = _callee(t, newset) if t.get('k') == 'call' else None
        if not cal or cal in stack or cal == body.get('root') or len(nb['blocks']) > 6000:
            i += 1
            continue
        cb = inline_into(F, F.bodies[cal], newset, stack + (cal,), depth + 1, closure_alias)
        if len(t['args']) != cb.get('argc', 0) or t.get('t') is None:
            i += 1
            continue
        lo = len(nb['locals'])
        bo = len(nb['blocks'])
        nb['locals'] = nb['locals'] + [dict(l_) for l_ in cb['locals']]
        # parameters: _lo+k = argument k
        pre = []
        for k, a in enumerate(t['args']):
            pre.append({'k': '=', 'pl': {'l': lo + 1 + k, 'p': None}, 'rv': {'k': 'use', 'op': copy.deepcopy(a)}, 'ln': t.get('ln'), 'inl': cal})
        ret_to, unw_to, dst = t['t'], t.get('u'), t['dst']
        blk['s'] = blk['s'] + pre
        blk['t'] = {'k': 'goto', 't': bo, 'ln': t.get('ln'), 'inl': cal}
        for cblk in cb['blocks']:
            ss = [_ren(s_, lo, bo) for s_ in cblk['s']]
            # closures created by the helper: they now belong to the caller
            for s_ in ss:
                if s_.get('k') == '=' and s_['rv'].get('k') == 'agg' and s_['rv'].get('ak') == 'closure' and closure_alias is not None:
                    d_ = s_['rv'].get('def')
                    if d_ and d_.startswith(cal + '::{closure'):
                        alias = base + '::{closure#' + cal.rsplit('::', 1)[-1] + '.' + d_[len(cal) + len('::{closure#'):]
                        closure_alias[alias] = d_
                        s_['rv']['def'] = alias
            ct = cblk['t']
            if ct['k'] == 'ret':
                ss.append({'k': '=', 'pl': copy.deepcopy(dst), 'rv': {'k': 'use', 'op': {'k': 'mv', 'pl': {'l': lo, 'p': None}}}, 'ln': t.get('ln'), 'inl': cal})
                nt = {'k': 'goto', 't': ret_to, 'ln': ct.get('ln'), 'inl': cal}
            elif ct['k'] == 'resume':
                nt = {'k': 'goto', 't': unw_to, 'ln': ct.get('ln')} if isinstance(unw_to, int) else dict(ct)
            else:
                nt = _ren_term(ct, lo, bo)
            nb['blocks'].append({'s': ss, 't': nt})
        # do not advance: the spliced blocks are behind us (index >= bo), the current block is done
        i += 1
    nb['n_inlined'] = body.get('n_inlined', 0) + 1
    return nb


def _new_coroutines(F, newset):
    """coroutine bodies of the new async functions: `f::{closure#0}` for f in newset"""
    out = set()
    for p, b in F.bodies.items():
        if b['kind'] == 'Closure' and p.endswith('::{closure#0}') and p[:-len('::{closure#0}')] in newset and len(b['blocks']) <= MAX_BLOCKS \
                and b.get('locals') and '{async' in b['locals'][1]['ty'] if len(b.get('locals', [])) > 1 else False:
            out.add(p)
    return out


INLINED_AWAITS = {}


def inline_awaits(F, body, coros, depth=0):
    """`helper(args).await` of a new async helper: the coroutine body of the helper is spliced in at the poll, its captured
    variables bound to the operands of the coroutine value, its `return` turned into Poll::Ready(value); its own awaits stay
    awaits.  Jump threading afterwards removes the caller's (now impossible) Pending arm."""
    if depth > MAX_DEPTH or not coros:
        return body
    from .core import B as _B
    polls = [i for i, blk in enumerate(body['blocks']) if blk['t'].get('k') == 'call' and str((blk['t'].get('f') or {}).get('fn', '')).endswith('future::Future::poll')]
    if not polls:
        return body
    W = _B(body)
    todo = []
    for i in polls:
        t = body['blocks'][i]['t']
        try:
            o = W.origin(t['args'][0])
        except Exception:
            continue
        if o and o[0] == 'agg' and o[1].get('ak') == 'coroutine' and o[1].get('def') in coros and isinstance(t.get('t'), int):
            todo.append((i, o[1]))
    if not todo:
        return body
    nb = dict(body)
    nb['locals'] = list(body['locals'])
    nb['blocks'] = [{'s': list(blk['s']), 't': dict(blk['t'])} for blk in body['blocks']]
    for i, agg in todo:
        INLINED_AWAITS[agg['def']] = INLINED_AWAITS.get(agg['def'], 0) + 1
        cb = inline_awaits(F, F.bodies[agg['def']], coros - {agg['def']}, depth + 1)
        blk = nb['blocks'][i]
        t = blk['t']
        lo = len(nb['locals'])
        bo = len(nb['blocks'])
        nb['locals'] = nb['locals'] + [dict(l_) for l_ in cb['locals']]
        # captured variables: fresh locals bound to the operands the coroutine value was built from
        ups = {}
        pre = []
        for k, op in enumerate(agg.get('ops') or []):
            ups[k] = len(nb['locals'])
            nb['locals'] = nb['locals'] + [{'ty': '?', 'n': 'upvar%d' % k}]
            o2 = copy.deepcopy(op)
            if o2.get('k') == 'mv':
                o2['k'] = 'cp'
            pre.append({'k': '=', 'pl': {'l': ups[k], 'p': None}, 'rv': {'k': 'use', 'op': o2}, 'ln': t.get('ln'), 'inl': agg['def']})
        if len(t['args']) > 1:
            pre.append({'k': '=', 'pl': {'l': lo + 2, 'p': None}, 'rv': {'k': 'use', 'op': copy.deepcopy(t['args'][1])}, 'ln': t.get('ln'), 'inl': agg['def']})

        def fix(x):
            """places rooted in the coroutine state `_1.k...` become the fresh local for captured variable k"""
            if isinstance(x, dict):
                if x.get('l') == lo + 1 and isinstance(x.get('p'), list) and x['p'] and isinstance(x['p'][0], dict) and 'f' in x['p'][0] and x['p'][0]['f'] in ups:
                    rest = [fix(e) for e in x['p'][1:]]
                    y = {k_: fix(v_) for k_, v_ in x.items() if k_ not in ('l', 'p')}
                    y['l'] = ups[x['p'][0]['f']]
                    y['p'] = rest or None
                    return y
                return {k_: fix(v_) for k_, v_ in x.items()}
            if isinstance(x, list):
                return [fix(v_) for v_ in x]
            return x
        ret_to, unw_to, dst = t['t'], t.get('u'), t['dst']
        blk['s'] = blk['s'] + pre
        blk['t'] = {'k': 'goto', 't': bo, 'ln': t.get('ln'), 'inl': agg['def']}
        for cblk in cb['blocks']:
            ss = [fix(_ren(s_, lo, bo)) for s_ in cblk['s']]
            ct = cblk['t']
            if ct['k'] == 'ret':
                ss.append({'k': '=', 'pl': copy.deepcopy(dst), 'rv': {'k': 'agg', 'ak': 'adt', 'adt': 'core::task::poll::Poll', 'var': 'Ready', 'vi': 0, 'fn': ['0'],
                                                                     'ops': [{'k': 'mv', 'pl': {'l': lo, 'p': None}}]}, 'ln': t.get('ln'), 'inl': agg['def']})
                nt = {'k': 'goto', 't': ret_to, 'ln': ct.get('ln'), 'inl': agg['def']}
            elif ct['k'] == 'resume':
                nt = {'k': 'goto', 't': unw_to, 'ln': ct.get('ln')} if isinstance(unw_to, int) else dict(ct)
            else:
                nt = fix(_ren_term(ct, lo, bo))
            nb['blocks'].append({'s': ss, 't': nt})
    nb['n_inlined'] = body.get('n_inlined', 0) + 1
    return nb


def devirtualise(body):
    """`f(args)` where f is a function pointer that, after splicing, is a known function item in this very body (a helper took
    `build: fn(..) -> T`): the call is rewritten into a direct call of that function"""
    sites = [i for i, blk in enumerate(body['blocks']) if blk['t'].get('k') == 'call' and (blk['t'].get('f') or {}).get('k') in ('cp', 'mv')]
    if not sites:
        return body
    from .core import B as _B
    W = _B(body)
    nb = None
    for i in sites:
        t = body['blocks'][i]['t']
        try:
            o = W.origin(t['f'], at=(i, None))
        except Exception:
            continue
        while o and o[0] == 'cast' and len(o) > 3:
            o = o[3]            # the ReifyFnPointer cast of a function item
        if o and o[0] == 'fnref' and o[1]:
            if nb is None:
                nb = dict(body)
                nb['blocks'] = [{'s': blk['s'], 't': blk['t']} for blk in body['blocks']]
            nt = dict(t)
            nt['f'] = {'k': 'c', 'fn': o[1], 'd': o[1], 'devirt': True}
            nb['blocks'][i] = {'s': nb['blocks'][i]['s'], 't': nt}
    return nb if nb is not None else body


INLINED_CLOSURE_CALLS = {}
_CLOSURE_CALLS = ('core::ops::function::FnOnce::call_once', 'core::ops::function::FnMut::call_mut', 'core::ops::function::Fn::call')


# adaptor -> (type, variant the closure runs on, its index, is the closure's result wrapped in that variant again?)
_ADAPTORS = {
    'core::result::Result::<T, E>::map': ('core::result::Result', 'Ok', 0, True),
    'core::result::Result::<T, E>::and_then': ('core::result::Result', 'Ok', 0, False),
    'core::result::Result::<T, E>::map_err': ('core::result::Result', 'Err', 1, True),
    'core::option::Option::<T>::map': ('core::option::Option', 'Some', 1, True),
    'core::option::Option::<T>::and_then': ('core::option::Option', 'Some', 1, False),
}


# iterator consumers that are loops: name -> does the closure's answer end the loop early?
_ITER_LOOPS = {
    'core::iter::traits::iterator::Iterator::for_each': False,
    'core::iter::traits::iterator::Iterator::try_for_each': True,
}
_ALIAS = {}


def _closure_body(F, bodies, d):
    """body of the closure `d`, also when d is the name a helper's closure goes by in the caller it was spliced into"""
    for _ in range(8):
        cb = bodies.get(d) or F.bodies.get(d)
        if cb is not None or d not in _ALIAS:
            return cb
        d = _ALIAS[d]
    return None


def inline_closure_calls(F, body, bodies=None, depth=0, direct=True, changed=()):
    """`f()` where f is, after the helpers were spliced in, a closure written in this very body (a new helper took it as an
    `impl FnOnce` parameter): the closure's body is spliced in at the call, its environment bound to the closure value."""
    if depth > MAX_DEPTH:
        return body
    bodies = bodies or F.bodies
    sites = [i for i, blk in enumerate(body['blocks']) if direct and blk['t'].get('k') == 'call' and (blk['t'].get('f') or {}).get('fn') in _CLOSURE_CALLS
             and len(blk['t'].get('args') or ()) == 2 and isinstance(blk['t'].get('t'), int)]
    # `ord.then_with(|| ..)` whose closure hands the rest of a comparison to a new helper: the closure runs exactly when ord is Equal
    tw = [i for i, blk in enumerate(body['blocks']) if changed and blk['t'].get('k') == 'call' and (blk['t'].get('f') or {}).get('fn') == 'core::cmp::Ordering::then_with'
          and len(blk['t'].get('args') or ()) == 2 and isinstance(blk['t'].get('t'), int) and blk['t']['args'][0].get('k') in ('cp', 'mv')]
    # `r.map(|x| ..)` / `and_then` / `map_err` of a Result or Option in a body that had helpers spliced in: the closure runs on the
    # payload of the one variant, the other variant passes through - written out as the match it stands for
    ad = []
    if direct:
        for i, blk in enumerate(body['blocks']):
            t_ = blk['t']
            if t_.get('k') != 'call' or len(t_.get('args') or ()) != 2 or not isinstance(t_.get('t'), int) or t_['args'][0].get('k') not in ('cp', 'mv') or (t_.get('dst') or {}).get('p'):
                continue
            fn_ = str((t_.get('f') or {}).get('fn') or '')
            if fn_ in _ADAPTORS:
                ad.append(i)
    # `iter.for_each(|x| ..)` / `iter.try_for_each(|x| ..)` in a body that had helpers spliced in: written out as the loop it stands for
    fe = []
    if direct:
        for i, blk in enumerate(body['blocks']):
            t_ = blk['t']
            if t_.get('k') != 'call' or len(t_.get('args') or ()) != 2 or not isinstance(t_.get('t'), int) or t_['args'][0].get('k') not in ('cp', 'mv') or (t_.get('dst') or {}).get('p'):
                continue
            if str((t_.get('f') or {}).get('fn') or '') in _ITER_LOOPS:
                fe.append(i)
    if not sites and not tw and not ad and not fe:
        return body
    from .core import B as _B
    W = _B(body)
    todo = []
    for i in sites:
        t = body['blocks'][i]['t']
        try:
            o = W.origin(t['args'][0])
        except Exception:
            continue
        by_ref = False
        if o and o[0] == 'ref' and len(o) > 1 and isinstance(o[1], tuple):
            o, by_ref = o[1], True
        if not (o and o[0] == 'agg' and isinstance(o[1], dict) and o[1].get('ak') == 'closure'):
            continue
        agg = o[1]
        d = o[1].get('def')
        cb = _closure_body(F, bodies, d)
        if cb is None or d == body['path'] or len(cb['blocks']) > MAX_BLOCKS:
            continue
        a1 = t['args'][1]
        n_par = cb.get('argc', 1) - 1
        if n_par > 0 and a1.get('k') == 'c':
            continue
        if by_ref != (t['f']['fn'] != _CLOSURE_CALLS[0]):
            continue
        todo.append((i, d, cb, n_par, agg))
    for i in tw:
        t = body['blocks'][i]['t']
        try:
            o = W.origin(t['args'][1])
        except Exception:
            continue
        if not (o and o[0] == 'agg' and isinstance(o[1], dict) and o[1].get('ak') == 'closure' and o[1].get('def') in changed):
            continue
        d = o[1]['def']
        cb = _closure_body(F, bodies, d)
        if cb is None or cb.get('argc', 1) != 1 or len(cb['blocks']) > MAX_BLOCKS:
            continue
        o[1]['expanded'] = True       # (marks the closure literal: its body now also stands at the place it was called from)
        todo.append((i, d, cb, 'then_with', o[1]))
    for i in ad:
        t = body['blocks'][i]['t']
        try:
            o = W.origin(t['args'][1])
        except Exception:
            continue
        if not (o and o[0] == 'agg' and isinstance(o[1], dict) and o[1].get('ak') == 'closure'):
            continue
        d = o[1]['def']
        cb = _closure_body(F, bodies, d)
        if cb is None or cb.get('argc', 1) != 2 or len(cb['blocks']) > 24 or d == body['path']:
            continue
        # only closures that carry values on (re-pack a tuple, convert a number): a predicate or a constructor call keeps the
        # adaptor form, which the rules read as an expression
        rty = str((cb.get('locals') or [{}])[0].get('ty') or '')
        if not (rty.startswith('(') or rty in ('usize', 'u64', 'u32', 'u16', 'u8', 'i64', 'i32')):
            continue
        o[1]['expanded'] = True
        todo.append((i, d, cb, ('adaptor', t['f']['fn']), o[1]))
    for i in fe:
        t = body['blocks'][i]['t']
        try:
            o = W.origin(t['args'][1])
        except Exception:
            continue
        by_ref_ = False
        if o and o[0] == 'ref' and len(o) > 1 and isinstance(o[1], tuple):
            o, by_ref_ = o[1], True
        if not (o and o[0] == 'agg' and isinstance(o[1], dict) and o[1].get('ak') == 'closure'):
            continue
        d = o[1]['def']
        cb = _closure_body(F, bodies, d)
        if cb is None or cb.get('argc', 1) != 2 or len(cb['blocks']) > 60 or d == body['path']:
            continue
        o[1]['expanded'] = True
        todo.append((i, d, cb, ('loop', t['f']['fn']), o[1]))
    if not todo:
        return body
    nb = dict(body)
    nb['locals'] = list(body['locals'])
    nb['blocks'] = [{'s': list(blk['s']), 't': dict(blk['t'])} for blk in body['blocks']]
    for i, d, cb, n_par, agg in todo:
        INLINED_CLOSURE_CALLS[d] = INLINED_CLOSURE_CALLS.get(d, 0) + 1
        blk = nb['blocks'][i]
        t = blk['t']
        lo = len(nb['locals'])
        bo = len(nb['blocks'])
        nb['locals'] = nb['locals'] + [dict(l_) for l_ in cb['locals']]
        then_with = (n_par == 'then_with')
        adaptor = n_par[1] if isinstance(n_par, tuple) and n_par[0] == 'adaptor' else None
        loop = n_par[1] if isinstance(n_par, tuple) and n_par[0] == 'loop' else None
        if then_with or adaptor or loop:
            n_par = 0
        env = copy.deepcopy(t['args'][1 if (then_with or adaptor or loop) else 0])
        if env.get('k') == 'mv':
            env['k'] = 'cp'
        pre = [{'k': '=', 'pl': {'l': lo + 1, 'p': None}, 'rv': {'k': 'use', 'op': env}, 'ln': t.get('ln'), 'inl': d}]
        for j in range(n_par):
            tup = copy.deepcopy(t['args'][1]['pl'])
            tup['p'] = list(tup.get('p') or []) + [{'f': j}]
            pre.append({'k': '=', 'pl': {'l': lo + 2 + j, 'p': None}, 'rv': {'k': 'use', 'op': {'k': 'mv', 'pl': tup}}, 'ln': t.get('ln'), 'inl': d})
        # captured variables: fresh locals bound to the operands the closure value was built from
        ups = {}
        for k_, op_ in enumerate(agg.get('ops') or []):
            ups[k_] = len(nb['locals'])
            nb['locals'] = nb['locals'] + [{'ty': '?', 'n': 'upvar%d' % k_}]
            o2 = copy.deepcopy(op_)
            if o2.get('k') == 'mv':
                o2['k'] = 'cp'
            pre.append({'k': '=', 'pl': {'l': ups[k_], 'p': None}, 'rv': {'k': 'use', 'op': o2}, 'ln': t.get('ln'), 'inl': d})

        def fix(x):
            """places rooted in the environment `_1.k...` / `(*_1).k...` become the fresh local for captured variable k"""
            if isinstance(x, dict):
                if x.get('l') == lo + 1 and isinstance(x.get('p'), list) and x['p']:
                    pp = x['p'][1:] if x['p'][0] == '*' else x['p']
                    if pp and isinstance(pp[0], dict) and 'f' in pp[0] and pp[0]['f'] in ups:
                        y = {k2: fix(v2) for k2, v2 in x.items() if k2 not in ('l', 'p')}
                        y['l'] = ups[pp[0]['f']]
                        y['p'] = [fix(e) for e in pp[1:]] or None
                        return y
                return {k2: fix(v2) for k2, v2 in x.items()}
            if isinstance(x, list):
                return [fix(v2) for v2 in x]
            return x
        ret_to, unw_to, dst = t['t'], t.get('u'), t['dst']
        if loop:
            ncb = len(cb['blocks'])
            H, SW, BODY, DONE, EXIT = bo + ncb, bo + ncb + 1, bo + ncb + 2, bo + ncb + 3, bo + ncb + 4
            item_ty = str((cb['locals'][2] if len(cb['locals']) > 2 else {}).get('ty') or '?')
            it_l = len(nb['locals'])
            nb['locals'] = nb['locals'] + [{'ty': str((t.get('aty') or ['?'])[0]), 'n': None}, {'ty': '&mut ' + str((t.get('aty') or ['?'])[0]), 'n': None},
                                           {'ty': 'core::option::Option<%s>' % item_ty, 'n': None}, {'ty': 'isize', 'n': None}, {'ty': 'isize', 'n': None}]
            ref_l, nx_l, d1_l, d2_l = it_l + 1, it_l + 2, it_l + 3, it_l + 4
            pre.append({'k': '=', 'pl': {'l': it_l, 'p': None}, 'rv': {'k': 'use', 'op': copy.deepcopy(t['args'][0])}, 'ln': t.get('ln'), 'inl': d})
            blk['s'] = blk['s'] + pre
            blk['t'] = {'k': 'goto', 't': H, 'ln': t.get('ln'), 'inl': d}
        elif adaptor:
            adt_, run_var, run_vi, wrap = _ADAPTORS[adaptor]
            # the closure's parameter is the payload of the variant it runs on
            src = copy.deepcopy(t['args'][0]['pl'])
            pay = dict(src)
            pay['p'] = list(src.get('p') or []) + [{'dc': run_vi, 'n': run_var}, {'f': 0, 'n': '0'}]
            pre.append({'k': '=', 'pl': {'l': lo + 2, 'p': None}, 'rv': {'k': 'use', 'op': {'k': 'mv', 'pl': pay}}, 'ln': t.get('ln'), 'inl': d})
            dl = len(nb['locals'])
            nb['locals'] = nb['locals'] + [{'ty': 'isize', 'n': None}]
            other = len(nb['blocks']) + len(cb['blocks'])
            # the discriminant is read before the payload is moved out
            blk['s'] = blk['s'] + [{'k': '=', 'pl': {'l': dl, 'p': None}, 'rv': {'k': 'discr', 'pl': copy.deepcopy(src), 'ty': adt_}, 'ln': t.get('ln'), 'inl': d}] + pre
            blk['t'] = {'k': 'switch', 'd': {'k': 'mv', 'pl': {'l': dl, 'p': None}}, 'dty': 'isize', 'cases': [[run_vi, bo]], 'else': other, 'ln': t.get('ln'), 'inl': d}
        elif then_with:
            # switch on the ordering so far: Equal -> the closure, anything else -> that ordering
            dl = len(nb['locals'])
            nb['locals'] = nb['locals'] + [{'ty': 'isize', 'n': None}]
            ordp = copy.deepcopy(t['args'][0]['pl'])
            pre.append({'k': '=', 'pl': {'l': dl, 'p': None}, 'rv': {'k': 'discr', 'pl': ordp, 'ty': 'core::cmp::Ordering'}, 'ln': t.get('ln'), 'inl': d})
            other = len(nb['blocks']) + len(cb['blocks'])
            blk['s'] = blk['s'] + pre
            blk['t'] = {'k': 'switch', 'd': {'k': 'mv', 'pl': {'l': dl, 'p': None}}, 'dty': 'isize', 'cases': [[0, bo]], 'else': other, 'ln': t.get('ln'), 'inl': d}
        else:
            blk['s'] = blk['s'] + pre
            blk['t'] = {'k': 'goto', 't': bo, 'ln': t.get('ln'), 'inl': d}
        for cblk in cb['blocks']:
            ss = [fix(_ren(s_, lo, bo)) for s_ in cblk['s']]
            ct = cblk['t']
            if ct['k'] == 'ret' and loop:
                if _ITER_LOOPS[loop]:
                    # try_for_each: go round again while the closure answers Ok / Continue, leave with its answer otherwise
                    ss.append({'k': '=', 'pl': {'l': d2_l, 'p': None}, 'rv': {'k': 'discr', 'pl': {'l': lo, 'p': None}, 'ty': str(cb['locals'][0].get('ty') or '?')}, 'ln': t.get('ln'), 'inl': d})
                    nt = {'k': 'switch', 'd': {'k': 'mv', 'pl': {'l': d2_l, 'p': None}}, 'dty': 'isize', 'cases': [[0, H]], 'else': EXIT, 'ln': ct.get('ln'), 'inl': d}
                else:
                    nt = {'k': 'goto', 't': H, 'ln': ct.get('ln'), 'inl': d}
            elif ct['k'] == 'ret':
                if adaptor and _ADAPTORS[adaptor][3]:
                    adt_, run_var, run_vi, wrap = _ADAPTORS[adaptor]
                    ss.append({'k': '=', 'pl': copy.deepcopy(dst), 'rv': {'k': 'agg', 'ak': 'adt', 'adt': adt_, 'var': run_var, 'vi': run_vi, 'fn': ['0'],
                                                                       'ops': [{'k': 'mv', 'pl': {'l': lo, 'p': None}}]}, 'ln': t.get('ln'), 'inl': d})
                else:
                    ss.append({'k': '=', 'pl': copy.deepcopy(dst), 'rv': {'k': 'use', 'op': {'k': 'mv', 'pl': {'l': lo, 'p': None}}}, 'ln': t.get('ln'), 'inl': d})
                nt = {'k': 'goto', 't': ret_to, 'ln': ct.get('ln'), 'inl': d}
            elif ct['k'] == 'resume':
                nt = {'k': 'goto', 't': unw_to, 'ln': ct.get('ln')} if isinstance(unw_to, int) else dict(ct)
            else:
                nt = fix(_ren_term(ct, lo, bo))
            nb['blocks'].append({'s': ss, 't': nt})
        if loop:
            ln_ = t.get('ln')
            # H: next item
            nb['blocks'].append({'s': [{'k': '=', 'pl': {'l': ref_l, 'p': None}, 'rv': {'k': 'ref', 'mut': True, 'pl': {'l': it_l, 'p': None}}, 'ln': ln_, 'inl': d}],
                                 't': {'k': 'call', 'f': {'k': 'c', 'fn': 'core::iter::traits::iterator::Iterator::next', 'ty': '?', 'ga': [str((t.get('aty') or ['?'])[0])]},
                                       'args': [{'k': 'mv', 'pl': {'l': ref_l, 'p': None}}], 'aty': ['&mut ' + str((t.get('aty') or ['?'])[0])], 'dst': {'l': nx_l, 'p': None}, 't': SW, 'u': unw_to,
                                       'ln': ln_, 'inl': d}})
            # SW: Some -> the closure on the item, None -> done
            nb['blocks'].append({'s': [{'k': '=', 'pl': {'l': d1_l, 'p': None}, 'rv': {'k': 'discr', 'pl': {'l': nx_l, 'p': None}, 'ty': 'core::option::Option<%s>' % item_ty}, 'ln': ln_, 'inl': d}],
                                 't': {'k': 'switch', 'd': {'k': 'mv', 'pl': {'l': d1_l, 'p': None}}, 'dty': 'isize', 'cases': [[0, DONE], [1, BODY]], 'else': DONE, 'ln': ln_, 'inl': d}})
            nb['blocks'].append({'s': [{'k': '=', 'pl': {'l': lo + 2, 'p': None}, 'rv': {'k': 'use', 'op': {'k': 'mv', 'pl': {'l': nx_l, 'p': [{'dc': 1, 'n': 'Some'}, {'f': 0, 'n': '0'}]}}}, 'ln': ln_, 'inl': d}],
                                 't': {'k': 'goto', 't': bo, 'ln': ln_, 'inl': d}})
            if _ITER_LOOPS[loop]:
                rty_ = str(cb['locals'][0].get('ty') or '')
                if rty_.startswith('core::result::Result<'):
                    done_rv = {'k': 'agg', 'ak': 'adt', 'adt': 'core::result::Result', 'var': 'Ok', 'vi': 0, 'fn': ['0'], 'ops': [{'k': 'c', 'ty': '()'}]}
                else:
                    done_rv = {'k': 'agg', 'ak': 'adt', 'adt': 'core::ops::control_flow::ControlFlow', 'var': 'Continue', 'vi': 0, 'fn': ['0'], 'ops': [{'k': 'c', 'ty': '()'}]}
            else:
                done_rv = {'k': 'use', 'op': {'k': 'c', 'ty': '()'}}
            nb['blocks'].append({'s': [{'k': '=', 'pl': copy.deepcopy(dst), 'rv': done_rv, 'ln': ln_, 'inl': d}], 't': {'k': 'goto', 't': ret_to, 'ln': ln_, 'inl': d}})
            nb['blocks'].append({'s': [{'k': '=', 'pl': copy.deepcopy(dst), 'rv': {'k': 'use', 'op': {'k': 'mv', 'pl': {'l': lo, 'p': None}}}, 'ln': ln_, 'inl': d}],
                                 't': {'k': 'goto', 't': ret_to, 'ln': ln_, 'inl': d}})
        if adaptor:
            # the other variant goes through with its payload (written as the literal it is, so that what follows knows the variant)
            adt_, run_var, run_vi, wrap = _ADAPTORS[adaptor]
            o_var, o_vi = {'Ok': ('Err', 1), 'Err': ('Ok', 0), 'Some': ('None', 0)}[run_var]
            if o_var == 'None':
                orv = {'k': 'agg', 'ak': 'adt', 'adt': adt_, 'var': 'None', 'vi': 0, 'fn': [], 'ops': []}
            else:
                src2 = copy.deepcopy(t['args'][0]['pl'])
                src2['p'] = list(src2.get('p') or []) + [{'dc': o_vi, 'n': o_var}, {'f': 0, 'n': '0'}]
                orv = {'k': 'agg', 'ak': 'adt', 'adt': adt_, 'var': o_var, 'vi': o_vi, 'fn': ['0'], 'ops': [{'k': 'mv', 'pl': src2}]}
            nb['blocks'].append({'s': [{'k': '=', 'pl': copy.deepcopy(dst), 'rv': orv, 'ln': t.get('ln'), 'inl': d}],
                                 't': {'k': 'goto', 't': ret_to, 'ln': t.get('ln'), 'inl': d}})
        if then_with:
            nb['blocks'].append({'s': [{'k': '=', 'pl': copy.deepcopy(dst), 'rv': {'k': 'use', 'op': {'k': 'cp', 'pl': copy.deepcopy(t['args'][0]['pl'])}}, 'ln': t.get('ln'), 'inl': d}],
                                 't': {'k': 'goto', 't': ret_to, 'ln': t.get('ln'), 'inl': d}})
    nb['n_inlined'] = body.get('n_inlined', 0) + 1
    return nb


def _succs(t):
    k = t.get('k')
    if k in ('goto', 'falseedge', 'falseunwind'):
        return [t['t']]
    if k == 'switch':
        return [b for _, b in t['cases']] + [t['else']]
    if k in ('call', 'drop', 'assert', 'yield'):
        return [x for x in (t.get('t'),) if isinstance(x, int)]
    return []


def _const_of(rv, adts, env=None):
    """('int', v) for a constant, ('variant', discr[, constant of the single payload]) for an enum literal, else None"""
    if rv.get('k') == 'use' and rv['op'].get('k') == 'c' and isinstance(rv['op'].get('v'), int):
        return ('int', rv['op']['v'])
    if rv.get('k') == 'agg' and rv.get('ak') == 'adt' and 'vi' in rv:
        a = adts.get(rv.get('adt'))
        try:
            d = int(a['variants'][rv['vi']]['discr']) if a else rv['vi']
        except Exception:
            d = rv['vi']
        ops = rv.get('ops') or []
        if env is not None and len(ops) == 1 and ops[0].get('k') in ('cp', 'mv') and not ops[0]['pl'].get('p') and ops[0]['pl']['l'] in env:
            return ('variant', d, env[ops[0]['pl']['l']])
        return ('variant', d)
    if rv.get('k') == 'agg' and rv.get('ak') == 'tuple' and env is not None:
        # a tuple literal with a component whose constant / variant is known: `(term, None)`
        fs = {}
        for i, o in enumerate(rv.get('ops') or []):
            if o.get('k') in ('cp', 'mv') and not o['pl'].get('p') and o['pl']['l'] in env:
                fs[i] = env[o['pl']['l']]
        if fs:
            return ('tuple', fs)
    return None


def _project(env, pl):
    """what is known of the place `pl` (a local followed by field / downcast projections) in env, or None"""
    v = env.get(pl['l'])
    if v is None:
        return None
    for e in (pl.get('p') or []):
        if v is None or not isinstance(e, dict):
            return None
        if 'dc' in e:
            if v[0] != 'variant':
                return None
            continue
        if 'f' in e:
            if v[0] == 'tuple':
                v = v[1].get(e['f'])
            elif v[0] == 'variant' and len(v) > 2 and e['f'] == 0:
                v = v[2]
            else:
                return None
            continue
        return None
    return v


def _payload_of(rv, env):
    """constant carried by `(x as V).0` when x is a known literal with a known payload"""
    if rv.get('k') != 'use' or rv['op'].get('k') not in ('cp', 'mv'):
        return None
    pl = rv['op']['pl']
    p = pl.get('p') or []
    if len(p) == 2 and isinstance(p[0], dict) and 'dc' in p[0] and isinstance(p[1], dict) and p[1].get('f') == 0 and pl['l'] in env:
        v = env[pl['l']]
        if v[0] == 'variant' and len(v) > 2:
            return v[2]
    if p and pl['l'] in env:
        return _project(env, pl)
    return None


def fold_constant_switches(body, adts=None):
    """a switch on a local that has one definition in the whole body, a constant (a literal argument of an inlined helper:
    `parse_atom_name(input, len, true)`), takes one branch only: it becomes a goto"""
    defs = {}
    for blk in body['blocks']:
        for st in blk['s']:
            if st.get('k') == '=' and not st['pl'].get('p'):
                defs.setdefault(st['pl']['l'], []).append(st['rv'])
        t = blk['t']
        if t.get('k') == 'call' and t.get('dst') and not t['dst'].get('p'):
            defs.setdefault(t['dst']['l'], []).append(None)
    argc = body.get('argc', 0)
    # locals written to in part (a field assignment, a mutable borrow) are not "one literal"
    partial = {}
    for blk in body['blocks']:
        for st in blk['s']:
            if st.get('k') == '=':
                if st['pl'].get('p'):
                    partial[st['pl']['l']] = True
                if st['rv'].get('k') in ('ref', 'rawptr') and (st['rv'].get('mut') or st['rv']['k'] == 'rawptr'):
                    partial[st['rv']['pl']['l']] = True

    def const_of(l, depth=0):
        if depth > 6 or 1 <= l <= argc:
            return None
        ds = defs.get(l, [])
        if len(ds) != 1 or ds[0] is None:
            return None
        rv = ds[0]
        if rv.get('k') == 'use' and rv['op'].get('k') == 'c' and isinstance(rv['op'].get('v'), int):
            return rv['op']['v']
        if rv.get('k') == 'use' and rv['op'].get('k') in ('cp', 'mv') and not rv['op']['pl'].get('p'):
            return const_of(rv['op']['pl']['l'], depth + 1)
        if rv.get('k') == 'un' and rv.get('op') == 'Not' and rv['a'].get('k') in ('cp', 'mv') and not rv['a']['pl'].get('p'):
            v = const_of(rv['a']['pl']['l'], depth + 1)
            return None if v is None else (0 if v else 1)
        if rv.get('k') == 'discr' and not rv['pl'].get('p'):
            # the discriminant of a value that is, through copies, one enum literal (`Width::U32` handed to a spliced-in helper)
            return variant_of(rv['pl']['l'], depth + 1)
        return None

    def variant_of(l, depth=0):
        if depth > 8 or 1 <= l <= argc:
            return None
        ds = defs.get(l, [])
        if len(ds) != 1 or ds[0] is None:
            return None
        rv = ds[0]
        if rv.get('k') == 'use' and rv['op'].get('k') in ('cp', 'mv') and not rv['op']['pl'].get('p'):
            return variant_of(rv['op']['pl']['l'], depth + 1)
        if rv.get('k') == 'agg' and rv.get('ak') == 'adt' and 'vi' in rv and not partial.get(l):
            a = (adts or {}).get(rv.get('adt'))
            try:
                return int(a['variants'][rv['vi']]['discr']) if a else rv['vi']
            except Exception:
                return rv['vi']
        return None
    for blk in body['blocks']:
        t = blk['t']
        if t.get('k') == 'switch' and t['d'].get('k') in ('cp', 'mv') and not t['d']['pl'].get('p'):
            v = const_of(t['d']['pl']['l'])
            if v is not None:
                tgt = dict((cv, cb) for cv, cb in t['cases']).get(v, t['else'])
                blk['t'] = {'k': 'goto', 't': tgt, 'ln': t.get('ln'), 'folded': True}
    return body


def thread_jumps(body, adts, max_rounds=6, max_new=1500):
    """Jump threading for values that are constants on the way in: when a block sets a local to a constant (a bool, an enum
    literal such as Some(..)/None/Ok/Err) and control then runs through straight-line blocks into a switch on that local (or on its
    discriminant), the straight-line blocks are duplicated for this predecessor and the switch is replaced by the branch the
    constant selects.  After inlining a helper `fn f(..) -> bool / Option<T>` this restores the path structure the un-factored code
    had: what was guarded inside the helper stays guarded for the code after the call."""
    blocks = body['blocks']
    added = 0
    events = []
    for _ in range(max_rounds):
        changed = False
        n0 = len(blocks)
        for xi in range(n0):
            X = blocks[xi]
            known = {}
            if X['t'].get('k') == 'call':
                # `None?` / `Err(e)?`: from_residual of an Option residual is None, of a Result residual an Err
                f_ = X['t'].get('f') or {}
                a_ = (X['t'].get('aty') or [''])[0]
                if str(f_.get('fn', '')).endswith('FromResidual::from_residual') and not X['t']['dst'].get('p') and isinstance(X['t'].get('t'), int):
                    if a_.startswith('core::option::Option<core::convert::Infallible'):
                        known[X['t']['dst']['l']] = ('variant', 0)
                    elif a_.startswith('core::result::Result<core::convert::Infallible'):
                        known[X['t']['dst']['l']] = ('variant', 1)
                if not known:
                    continue
            elif X['t'].get('k') not in ('goto', 'drop') or not isinstance(X['t'].get('t'), int):
                continue
            # last plain definitions in X
            for st in (X['s'] if X['t'].get('k') in ('goto', 'drop') else []):
                if st.get('k') != '=':
                    continue
                pl = st['pl']
                if pl.get('p'):
                    if (known.get(pl['l']) or ('?',))[0] == 'tuple':
                        known.pop(pl['l'], None)
                    continue
                if st['rv'].get('k') == 'ref' and st['rv'].get('mut') and (known.get(st['rv']['pl']['l']) or ('?',))[0] == 'tuple':
                    known.pop(st['rv']['pl']['l'], None)
                c = _const_of(st['rv'], adts, known) or _payload_of(st['rv'], known)
                if c is not None:
                    known[pl['l']] = c
                elif st['rv'].get('k') == 'use' and st['rv']['op'].get('k') in ('cp', 'mv') and not st['rv']['op']['pl'].get('p') and st['rv']['op']['pl']['l'] in known:
                    known[pl['l']] = known[st['rv']['op']['pl']['l']]
                else:
                    known.pop(pl['l'], None)
            if not known:
                continue
            path = []
            cur = X['t']['t']
            env = dict(known)
            found = None
            for _step in range(48):
                Cb = blocks[cur]
                # statements of the straight-line block: track copies, forget redefinitions
                disc = {}
                for st in Cb['s']:
                    if st.get('k') != '=':
                        continue
                    pl = st['pl']
                    if pl.get('p'):
                        if (env.get(pl['l']) or ('?',))[0] == 'tuple':
                            env.pop(pl['l'], None)        # a component is overwritten
                        continue
                    rv = st['rv']
                    if rv.get('k') == 'ref' and rv.get('mut') and (env.get(rv['pl']['l']) or ('?',))[0] == 'tuple':
                        env.pop(rv['pl']['l'], None)
                    if rv.get('k') == 'use' and rv['op'].get('k') in ('cp', 'mv') and not rv['op']['pl'].get('p') and rv['op']['pl']['l'] in env:
                        env[pl['l']] = env[rv['op']['pl']['l']]
                    elif rv.get('k') == 'discr' and not rv['pl'].get('p') and rv['pl']['l'] in env and env[rv['pl']['l']][0] == 'variant':
                        env[pl['l']] = ('int', env[rv['pl']['l']][1])
                    elif rv.get('k') == 'discr' and rv['pl'].get('p') and (_project(env, rv['pl']) or ('?',))[0] == 'variant':
                        env[pl['l']] = ('int', _project(env, rv['pl'])[1])      # `match pair.1 { None => .. }` of a pair built from a literal
                    elif rv.get('k') == 'ref' and not rv['pl'].get('p') and rv['pl']['l'] in env and env[rv['pl']['l']][0] == 'variant':
                        env[pl['l']] = env[rv['pl']['l']]       # `&x` of a value whose variant is known (only is_some()/is_none() look through it)
                    else:
                        c = _const_of(rv, adts, env) or _payload_of(rv, env)
                        if c is not None:
                            env[pl['l']] = c
                        else:
                            env.pop(pl['l'], None)
                t = Cb['t']
                if t.get('k') == 'switch':
                    d = t['d']
                    if d.get('k') in ('cp', 'mv') and not d['pl'].get('p') and d['pl']['l'] in env and env[d['pl']['l']][0] == 'int':
                        v = env[d['pl']['l']][1]
                        tgt = dict((cv, cb) for cv, cb in t['cases']).get(v, t['else'])
                        found = (cur, tgt)
                    break
                if t.get('k') in ('goto', 'falseedge', 'drop') and isinstance(t.get('t'), int) and cur != xi and cur not in path:
                    path.append(cur)
                    cur = t['t']
                    continue
                # `x?` on a value known to be Ok/Some (or Err/None): Try::branch answers Continue (or Break)
                if t.get('k') == 'call' and str((t.get('f') or {}).get('fn', '')).endswith('Try::branch') and t.get('args') and isinstance(t.get('t'), int) \
                        and not t['dst'].get('p') and cur != xi and cur not in path:
                    a0 = t['args'][0]
                    aty = (t.get('aty') or [''])[0]
                    if a0.get('k') in ('cp', 'mv') and not a0['pl'].get('p') and a0['pl']['l'] in env and env[a0['pl']['l']][0] == 'variant':
                        v_ = env[a0['pl']['l']][1]
                        in_ = env[a0['pl']['l']][2:] 
                        if aty.startswith('core::result::Result<'):
                            env[t['dst']['l']] = ('variant', 0 if v_ == 0 else 1) + (tuple(in_) if v_ == 0 else ())
                        elif aty.startswith('core::option::Option<'):
                            env[t['dst']['l']] = ('variant', 0 if v_ == 1 else 1) + (tuple(in_) if v_ == 1 else ())
                        else:
                            break
                        path.append(cur)
                        cur = t['t']
                        continue
                # adapters that keep the variant: map_err / map / ok_or / as_ref ... of a value known to be Err (None, Ok, Some)
                if t.get('k') == 'call' and t.get('args') and isinstance(t.get('t'), int) and not t['dst'].get('p') and cur != xi and cur not in path:
                    fn_ = str((t.get('f') or {}).get('fn', ''))
                    a0 = t['args'][0]
                    last_ = fn_.rsplit('::', 1)[-1]
                    if a0.get('k') in ('cp', 'mv') and not a0['pl'].get('p') and a0['pl']['l'] in env and env[a0['pl']['l']][0] == 'variant' \
                            and (fn_.startswith('core::result::Result::<T, E>::') or fn_.startswith('core::option::Option::<T>::')):
                        v_ = env[a0['pl']['l']][1]
                        nv_ = None
                        if last_ in ('map_err', 'map', 'as_ref', 'as_mut', 'copied', 'cloned', 'as_deref', 'inspect', 'inspect_err'):
                            nv_ = v_
                        elif last_ in ('ok_or', 'ok_or_else') and fn_.startswith('core::option::'):
                            nv_ = 0 if v_ == 1 else 1
                        elif last_ in ('ok', 'err') and fn_.startswith('core::result::'):
                            nv_ = (1 if v_ == 0 else 0) if last_ == 'ok' else (1 if v_ == 1 else 0)
                        if nv_ is not None:
                            env[t['dst']['l']] = ('variant', nv_)
                            path.append(cur)
                            cur = t['t']
                            continue
                        # x.is_some() / is_none() / is_ok() / is_err() of a known variant is a known bool
                        bv_ = None
                        if fn_.startswith('core::option::') and last_ in ('is_some', 'is_none'):
                            bv_ = (v_ == 1) == (last_ == 'is_some')
                        elif fn_.startswith('core::result::') and last_ in ('is_ok', 'is_err'):
                            bv_ = (v_ == 0) == (last_ == 'is_ok')
                        if bv_ is not None:
                            env[t['dst']['l']] = ('int', 1 if bv_ else 0)
                            path.append(cur)
                            cur = t['t']
                            continue
                break
            if not found or added > max_new:
                continue
            sw, tgt = found
            # duplicate path + switch block for this predecessor
            chain = path + [sw]
            mp = {}
            for b_ in chain:
                mp[b_] = len(blocks)
                blocks.append({'s': [dict(s_) for s_ in blocks[b_]['s']], 't': dict(blocks[b_]['t'])})
                added += 1
            for k_, b_ in enumerate(chain):
                nb_ = blocks[mp[b_]]
                if b_ == sw:
                    nb_['t'] = {'k': 'goto', 't': tgt, 'ln': blocks[b_]['t'].get('ln'), 'thr': True}
                else:
                    nb_['t'] = dict(nb_['t'])
                    nb_['t']['t'] = mp[chain[k_ + 1]]
            X['t'] = dict(X['t'])
            X['t']['t'] = mp[chain[0]]
            changed = True
            events.append((xi, [mp[b_] for b_ in chain], tgt, set(env)))
        if not changed:
            break
    # single-assignment form for the threaded values: where the branch target is reached from this one predecessor only, the locals
    # that carried the constant get fresh names on that path (definition in the predecessor, copies in the duplicated blocks, uses in
    # the region only reachable through it), so that "the value here" resolves to the one definition that can reach it
    def reach(start, cut=None):
        seen, st_ = set(), [start]
        while st_:
            b_ = st_.pop()
            if b_ in seen:
                continue
            seen.add(b_)
            for s_ in _succs(blocks[b_]['t']):
                if cut is not None and (b_, s_) == cut:
                    continue
                st_.append(s_)
            u_ = blocks[b_]['t'].get('u')
            if isinstance(u_, int):
                st_.append(u_)
        return seen
    live = reach(0)
    for xi, clones, tgt, locs in events:
        E_ = clones[-1]
        if xi not in live or E_ not in live:
            continue
        preds = [b_ for b_ in live if tgt in _succs(blocks[b_]['t']) or blocks[b_]['t'].get('u') == tgt]
        if preds == [E_]:
            without = reach(0, cut=(E_, tgt))
            region = reach(tgt) - without
        else:
            # the target is shared with other paths: the carried locals can still be renamed on this path when nothing
            # after the target looks at them (the None arm of an `if let Some(..)` does not look at the option)
            region = set()

            def mentioned(start, ls):
                after = reach(start)
                txt = [json.dumps({'s': [st for st in blocks[b_]['s'] if st.get('k') not in ('live', 'dead')], 't': blocks[b_]['t']}) for b_ in after]
                return set(l_ for l_ in ls if any(('"l": %d}' % l_) in t_ or ('"l": %d,' % l_) in t_ or ('"idx": %d' % l_) in t_ for t_ in txt))
            # the arm the constant selects usually still looks at the value (`(r as Break).0` of an error on its way out): the arm's
            # straight-line blocks are duplicated for this path too, until nothing further on mentions the carried locals
            cur_, ext, seen_ = tgt, [], set()
            still = mentioned(cur_, locs)
            # dry run: only worth it when a few straight-line blocks (no calls but the error conversion of `?`) get rid of every mention
            probe, steps_, ok_ = tgt, 0, False
            pseen = set()
            while steps_ < 8:
                if not mentioned(probe, locs):
                    ok_ = True
                    break
                pt = blocks[probe]['t']
                if probe in pseen or pt.get('k') not in ('goto', 'falseedge', 'drop', 'call') or not isinstance(pt.get('t'), int):
                    break
                if pt.get('k') == 'call' and not str((pt.get('f') or {}).get('fn', '')).endswith('FromResidual::from_residual'):
                    break
                pseen.add(probe)
                probe = pt['t']
                steps_ += 1
            if not ok_:
                still = set(still)
                locs = set(l_ for l_ in locs if l_ not in still)
                if not locs:
                    continue
                still = set()
            while still and len(ext) < 8 and added <= max_new:
                tb = blocks[cur_]
                tt = tb['t']
                if cur_ in seen_ or tt.get('k') not in ('goto', 'falseedge', 'drop', 'call') or not isinstance(tt.get('t'), int):
                    break
                seen_.add(cur_)
                ni = len(blocks)
                blocks.append({'s': [dict(s_) for s_ in tb['s']], 't': dict(tt)})
                added += 1
                prev = blocks[ext[-1] if ext else E_]
                prev['t'] = dict(prev['t'])
                prev['t']['t'] = ni
                ext.append(ni)
                cur_ = tt['t']
                still = mentioned(cur_, locs)
            clones = list(clones) + ext
            locs = set(l_ for l_ in locs if l_ not in still)
            if not locs:
                continue
        mapping = {}
        for l_ in sorted(locs):
            mapping[l_] = len(body['locals'])
            body['locals'] = body['locals'] + [dict(body['locals'][l_])]

        def rn(x):
            if isinstance(x, dict):
                y = {}
                for k_, v_ in x.items():
                    if k_ == 'l' and isinstance(v_, int) and not isinstance(v_, bool) and v_ in mapping:
                        y[k_] = mapping[v_]
                    elif k_ == 'idx' and isinstance(v_, int) and v_ in mapping:
                        y[k_] = mapping[v_]
                    else:
                        y[k_] = rn(v_)
                return y
            if isinstance(x, list):
                return [rn(v_) for v_ in x]
            return x
        # in the predecessor: from the first definition of one of the locals on
        X = blocks[xi]
        first = None
        for j_, st in enumerate(X['s']):
            if st.get('k') == '=' and not st['pl'].get('p') and st['pl']['l'] in mapping:
                first = j_
                break
        if first is None and X['t'].get('k') != 'call':
            continue
        if first is not None:
            X['s'] = X['s'][:first] + [rn(st) for st in X['s'][first:]]
        if X['t'].get('k') == 'call':
            nt_ = dict(X['t'])
            nt_['dst'] = rn(X['t']['dst'])
            X['t'] = nt_
        for b_ in clones:
            blocks[b_] = {'s': [rn(st) for st in blocks[b_]['s']], 't': rn(blocks[b_]['t'])}
        for b_ in region:
            blocks[b_] = {'s': [rn(st) for st in blocks[b_]['s']], 't': rn(blocks[b_]['t'])}
    return body


def _all_succs(t):
    out = []
    for k in ('t', 'u', 'else', 'drop'):      # the imaginary edge of a FalseEdge is never taken
        if isinstance(t.get(k), int):
            out.append(t[k])
    for _, b in t.get('cases') or ():
        out.append(b)
    return out


def _locals_in(x, out):
    if isinstance(x, dict):
        l = x.get('l')
        if isinstance(l, int) and not isinstance(l, bool):
            out.add(l)
        i = x.get('idx')
        if isinstance(i, int) and not isinstance(i, bool):
            out.add(i)
        for v in x.values():
            if isinstance(v, (dict, list)):
                _locals_in(v, out)
    elif isinstance(x, list):
        for v in x:
            _locals_in(v, out)


def _rename_local(x, l, nl):
    if isinstance(x, dict):
        y = {}
        for k, v in x.items():
            if k in ('l', 'idx') and v == l and isinstance(v, int) and not isinstance(v, bool):
                y[k] = nl
            elif isinstance(v, (dict, list)):
                y[k] = _rename_local(v, l, nl)
            else:
                y[k] = v
        return y
    if isinstance(x, list):
        return [_rename_local(v, l, nl) for v in x]
    return x


def split_webs(body):
    """A local that is assigned in several places (the copies jump threading makes, the result slot of a spliced helper) is
    split into one local per def-use web: definitions that never reach a common use get different names.  Which definition
    a use sees is then a matter of the name again, as it was before the helper was moved out."""
    blocks = body['blocks']
    n = len(blocks)

    def whole(pl):
        return isinstance(pl, dict) and isinstance(pl.get('l'), int) and not pl.get('p')
    # per statement: (def local | None, set of used locals)
    info = []
    defs = {}
    for bb, blk in enumerate(blocks):
        row = []
        for j, st in enumerate(blk['s']):
            if st.get('k') in ('live', 'dead'):
                row.append((None, ()))
                continue
            d = None
            u = set()
            if st.get('k') == '=' and whole(st.get('pl')):
                d = st['pl']['l']
                _locals_in(st.get('rv'), u)
            else:
                _locals_in(st, u)
            if d is not None:
                defs.setdefault(d, []).append((bb, j))
            row.append((d, u))
        t = blk['t']
        d = None
        u = set()
        if whole(t.get('dst')):
            d = t['dst']['l']
            _locals_in({k: v for k, v in t.items() if k != 'dst'}, u)
            defs.setdefault(d, []).append((bb, 'T'))
        else:
            _locals_in(t, u)
        row.append((d, u))
        info.append(row)
    multi = sorted(l for l, ds in defs.items() if len(ds) >= 2 and l != 0)
    if not multi:
        return body
    preds = [[] for _ in range(n)]
    for bb, blk in enumerate(blocks):
        t = blk['t']
        normal = t.get('t') if isinstance(t.get('t'), int) else None
        for s_ in set(_all_succs(t)):
            if 0 <= s_ < n:
                preds[s_].append((bb, s_ == normal or t.get('k') != 'call'))
    locals_ = list(body['locals'])
    new_blocks = None
    for l in multi:
        ids = {d: i + 1 for i, d in enumerate(defs[l])}
        # OUT sets per block: (normal edge, other edges)
        last = {}
        for bb in range(n):
            cur = None
            for j, (d, u) in enumerate(info[bb][:-1]):
                if d == l:
                    cur = ids[(bb, j)]
            pre = cur
            if info[bb][-1][0] == l:
                cur = ids[(bb, 'T')]
            last[bb] = (cur, pre)
        IN = [set() for _ in range(n)]
        IN[0] = {0}
        work = list(range(n))
        inw = set(work)
        succs = [set(x for x in _all_succs(blocks[bb]['t']) if 0 <= x < n) for bb in range(n)]
        while work:
            bb = work.pop()
            inw.discard(bb)
            acc = set(IN[bb]) if bb == 0 else set()
            for (pb, is_normal) in preds[bb]:
                cur, pre = last[pb]
                g = cur if is_normal else pre
                if g is not None:
                    acc.add(g)
                else:
                    acc |= IN[pb]
            if acc != IN[bb]:
                IN[bb] = acc
                for s_ in succs[bb]:
                    if s_ not in inw:
                        work.append(s_)
                        inw.add(s_)
        parent = list(range(len(ids) + 1))

        def find(x):
            while parent[x] != x:
                parent[x] = parent[parent[x]]
                x = parent[x]
            return x

        def union(xs):
            xs = list(xs)
            for y in xs[1:]:
                a, b = find(xs[0]), find(y)
                if a != b:
                    parent[max(a, b)] = min(a, b)
        use_sets = {}
        amb = set()
        for bb in range(n):
            cur = set(IN[bb])
            for j, (d, u) in enumerate(info[bb]):
                if l in u and cur:
                    if j == len(info[bb]) - 1 and blocks[bb]['t'].get('k') == 'drop':
                        # the clean-up of the slot is shared by every definition: it does not tie them together
                        if len(cur) == 1:
                            use_sets[(bb, j)] = next(iter(cur))
                        else:
                            amb.add((bb, j, frozenset(cur)))
                    else:
                        union(cur)
                        use_sets[(bb, j)] = next(iter(cur))
                if d == l:
                    cur = {ids[(bb, j if j < len(info[bb]) - 1 else 'T')]}
        for (bb, j, cur) in amb:
            if len({find(x) for x in cur}) == 1:
                use_sets[(bb, j)] = next(iter(cur))
        groups = {}
        for i in range(len(ids) + 1):
            groups.setdefault(find(i), []).append(i)
        real = [g for g, m in groups.items() if any(x != 0 for x in m)]
        if len(real) < 2:
            continue
        # the web of the entry value (or the first one) keeps the name
        keep = find(0) if any(x != 0 for x in groups[find(0)]) else min(real)
        name_of = {}
        for g in real:
            if g == keep:
                name_of[g] = l
            else:
                name_of[g] = len(locals_)
                locals_.append(dict(locals_[l]))
        if new_blocks is None:
            new_blocks = [{'s': list(blk['s']), 't': blk['t']} for blk in blocks]
        for bb in range(n):
            for j, (d, u) in enumerate(info[bb]):
                is_t = (j == len(info[bb]) - 1)
                nl_use = name_of.get(find(use_sets[(bb, j)]), l) if (bb, j) in use_sets else l
                nl_def = name_of.get(find(ids[(bb, 'T' if is_t else j)]), l) if d == l else l
                if nl_use == l and nl_def == l:
                    continue
                node = new_blocks[bb]['t'] if is_t else new_blocks[bb]['s'][j]
                if is_t:
                    dst = node.get('dst')
                    rest = {k: v for k, v in node.items() if k != 'dst'}
                    if nl_use != l:
                        rest = _rename_local(rest, l, nl_use)
                    if dst is not None:
                        rest['dst'] = _rename_local(dst, l, nl_def) if (d == l and nl_def != l) else (dst if d == l else (_rename_local(dst, l, nl_use) if nl_use != l else dst))
                    new_blocks[bb]['t'] = rest
                else:
                    if d == l:
                        st2 = dict(node)
                        if nl_use != l:
                            st2['rv'] = _rename_local(node['rv'], l, nl_use)
                        if nl_def != l:
                            st2['pl'] = _rename_local(node['pl'], l, nl_def)
                        new_blocks[bb]['s'][j] = st2
                    elif nl_use != l:
                        new_blocks[bb]['s'][j] = _rename_local(node, l, nl_use)
    if new_blocks is None:
        return body
    nb = dict(body)
    nb['locals'] = locals_
    nb['blocks'] = new_blocks
    for k in list(nb):
        if k.startswith('_'):
            del nb[k]
    return nb


def normalise(F):
    """F.bodies after inlining every function that is not in the known set; returns the list of inlined helpers"""
    known = load_known()
    if known is None or os.environ.get('VERIF_NO_INLINE') == '1':
        return []
    newset = new_functions(F, known)
    if not newset:
        return []
    alias = {}
    out = {}
    INLINED_AWAITS.clear()
    INLINED_CLOSURE_CALLS.clear()
    coros = _new_coroutines(F, newset)
    # the coroutine bodies of new async helpers first get their own (sync) helpers inlined
    for c_ in sorted(coros):
        F.bodies[c_] = inline_into(F, F.bodies[c_], newset, (), 0, alias)
    for p, b in F.bodies.items():
        if p in newset or p in coros:
            continue
        nb_ = inline_into(F, b, newset, (), 0, alias) if b.get('crate') in WS else b
        if b.get('crate') in WS and coros and p not in coros:
            nb_ = inline_awaits(F, nb_, coros)
        out[p] = nb_
    changed = {p for p in out if out[p] is not F.bodies.get(p)}
    _ALIAS.clear()
    _ALIAS.update(alias)
    for p in list(out):
        b = F.bodies[p]
        if b.get('crate') not in WS:
            continue
        nb_ = inline_closure_calls(F, out[p], bodies=out, direct=(p in changed), changed=changed)
        if p in changed:
            nb_ = devirtualise(nb_)
        if nb_ is not b:
            nb_ = fold_constant_switches(nb_, F.adts)
            nb_ = thread_jumps(nb_, F.adts)
            nb_ = split_webs(nb_)
        out[p] = nb_
    # closures of inlined helpers live on under the caller's name too
    for a, orig in list(alias.items()):
        for _ in range(8):          # a closure of a helper of a helper: the alias of an alias
            if orig in alias and orig not in F.bodies:
                orig = alias[orig]
        if orig in F.bodies and a not in out:
            c = dict(out.get(orig) or F.bodies[orig])
            c['path'] = a
            c['root'] = a.split('::{')[0]
            out[a] = c
    # closure bodies of the helpers themselves stay reachable under their own names (agg defs may still point at them);
    # the coroutine body of a new async helper is dropped when every place that creates it also awaits it (it has been
    # spliced in there) - a future that is handed to something else (spawn, timeout) keeps its body as a unit of its own
    created = {}
    for p, b in out.items():
        for blk in b['blocks']:
            for st in blk['s']:
                if st.get('k') == '=' and st['rv'].get('k') == 'agg' and st['rv'].get('ak') == 'coroutine' and st['rv'].get('def') in coros:
                    created[st['rv']['def']] = created.get(st['rv']['def'], 0) + 1
    for p, b in F.bodies.items():
        if p not in out and p not in newset:
            if p in coros and created.get(p, 0) > 0 and INLINED_AWAITS.get(p, 0) >= created.get(p, 0):
                continue
            out[p] = b
    # a new function that is also handed over by name (`.filter_map(Self::helper)`) is not reachable through a call: it keeps a body of its own;
    # so does a new function that users of the library can call (a new public operation is an entry point in its own right)
    from .families import _fn_items
    work = [q for b in list(out.values()) if b.get('crate') in WS for q in _fn_items(b)]
    work += [q for q in sorted(newset) if (F.fns.get(q) or {}).get('vis') == 'pub' and (F.fns.get(q) or {}).get('reach')]
    while work:
        q = work.pop()
        if q in newset and q not in out and q in F.bodies:
            nb_ = inline_into(F, F.bodies[q], newset - {q}, (), 0, alias)
            if nb_ is not F.bodies[q]:
                nb_ = thread_jumps(fold_constant_switches(nb_, F.adts), F.adts)
            out[q] = nb_
            work += _fn_items(nb_)
    F.bodies = out
    F.inlined = sorted(newset)
    return F.inlined
