// mirfacts: a generic "type-checked MIR -> JSON facts" dumper.
//
// Used as RUSTC_WORKSPACE_WRAPPER under `cargo +nightly check`.  For every
// workspace crate it writes ONE json file (single write) into $MIRFACTS_OUT
// describing ADTs, impls, consts and the `mir_built` CFG of every body owner.
// Nothing about edp-rs is hard-coded here; all property knowledge lives in
// /verif/sa and /verif/spec.
#![feature(rustc_private)]
#![allow(clippy::all)]

extern crate rustc_abi;
extern crate rustc_driver;
extern crate rustc_hir;
extern crate rustc_interface;
extern crate rustc_middle;
extern crate rustc_span;

use rustc_driver::Compilation;
use rustc_hir::def::DefKind;
use rustc_hir::def_id::{DefId, LocalDefId};
use rustc_middle::mir::{
    self, AggregateKind, BasicBlockData, Body, Const, ConstValue, Operand, Place, ProjectionElem,
    Rvalue, StatementKind, TerminatorKind,
};
use rustc_middle::ty::print::PrintTraitRefExt;
use rustc_middle::ty::{self, Ty, TyCtxt, TypeVisitableExt, TypingEnv};
use rustc_span::Span;
use std::fmt::Write as _;

// ---------------------------------------------------------------- JSON ----

enum J {
    Null,
    B(bool),
    I(i128),
    S(String),
    A(Vec<J>),
    O(Vec<(&'static str, J)>),
}

fn esc(s: &str, out: &mut String) {
    out.push('"');
    for c in s.chars() {
        match c {
            '"' => out.push_str("\\\""),
            '\\' => out.push_str("\\\\"),
            '\n' => out.push_str("\\n"),
            '\r' => out.push_str("\\r"),
            '\t' => out.push_str("\\t"),
            c if (c as u32) < 0x20 => {
                let _ = write!(out, "\\u{:04x}", c as u32);
            }
            c => out.push(c),
        }
    }
    out.push('"');
}

impl J {
    fn write(&self, out: &mut String) {
        match self {
            J::Null => out.push_str("null"),
            J::B(b) => out.push_str(if *b { "true" } else { "false" }),
            J::I(i) => {
                let _ = write!(out, "{}", i);
            }
            J::S(s) => esc(s, out),
            J::A(v) => {
                out.push('[');
                for (i, x) in v.iter().enumerate() {
                    if i > 0 {
                        out.push(',');
                    }
                    x.write(out);
                }
                out.push(']');
            }
            J::O(v) => {
                out.push('{');
                let mut first = true;
                for (k, x) in v.iter() {
                    if let J::Null = x {
                        continue;
                    }
                    if !first {
                        out.push(',');
                    }
                    first = false;
                    esc(k, out);
                    out.push(':');
                    x.write(out);
                }
                out.push('}');
            }
        }
    }
}

fn s<T: Into<String>>(x: T) -> J {
    J::S(x.into())
}

// ------------------------------------------------------------- helpers ----

fn full<T>(f: impl FnOnce() -> T) -> T {
    ty::print::with_no_trimmed_paths!(ty::print::with_no_visible_paths!(
        ty::print::with_resolve_crate_name!(f())
    ))
}

fn path_of(tcx: TyCtxt<'_>, did: DefId) -> String {
    full(|| tcx.def_path_str(did))
}

fn ty_str(t: Ty<'_>) -> String {
    full(|| format!("{}", t))
}

fn loc(tcx: TyCtxt<'_>, sp: Span) -> (String, i128, bool) {
    let exp = sp.from_expansion();
    let sp2 = if exp { sp.source_callsite() } else { sp };
    let sm = tcx.sess.source_map();
    let p = sm.lookup_char_pos(sp2.lo());
    let name = format!("{}", p.file.name.prefer_local_unconditionally());
    (name, p.line as i128, exp)
}

struct Cx<'a, 'tcx> {
    tcx: TyCtxt<'tcx>,
    body: &'a Body<'tcx>,
    env: TypingEnv<'tcx>,
}

impl<'a, 'tcx> Cx<'a, 'tcx> {
    fn place(&self, p: &Place<'tcx>) -> J {
        let tcx = self.tcx;
        let mut proj = Vec::new();
        let mut pty = mir::PlaceTy::from_ty(self.body.local_decls[p.local].ty);
        for elem in p.projection.iter() {
            let j = match elem {
                ProjectionElem::Deref => s("*"),
                ProjectionElem::Field(f, fty) => {
                    let mut name = format!("{}", f.index());
                    let mut adt = J::Null;
                    let mut var = J::Null;
                    if let ty::Adt(def, _) = pty.ty.kind() {
                        let vi = pty.variant_index.unwrap_or(rustc_abi::FIRST_VARIANT);
                        if vi.index() < def.variants().len() {
                            let v = def.variant(vi);
                            if f.index() < v.fields.len() {
                                name = v.fields[f].name.to_string();
                            }
                            adt = s(path_of(tcx, def.did()));
                            if def.is_enum() {
                                var = s(v.name.to_string());
                            }
                        }
                    }
                    J::O(vec![
                        ("f", J::I(f.index() as i128)),
                        ("n", s(name)),
                        ("adt", adt),
                        ("var", var),
                        ("ty", s(ty_str(fty))),
                    ])
                }
                ProjectionElem::Index(l) => J::O(vec![("idx", J::I(l.index() as i128))]),
                ProjectionElem::ConstantIndex { offset, min_length, from_end } => J::O(vec![
                    ("cidx", J::I(offset as i128)),
                    ("min", J::I(min_length as i128)),
                    ("from_end", J::B(from_end)),
                ]),
                ProjectionElem::Subslice { from, to, from_end } => J::O(vec![
                    ("sub_from", J::I(from as i128)),
                    ("sub_to", J::I(to as i128)),
                    ("from_end", J::B(from_end)),
                ]),
                ProjectionElem::Downcast(name, vi) => J::O(vec![
                    ("dc", J::I(vi.index() as i128)),
                    (
                        "n",
                        match name {
                            Some(n) => s(n.to_string()),
                            None => J::Null,
                        },
                    ),
                ]),
                _ => s("?"),
            };
            proj.push(j);
            pty = pty.projection_ty(tcx, elem);
        }
        J::O(vec![
            ("l", J::I(p.local.index() as i128)),
            ("p", if proj.is_empty() { J::Null } else { J::A(proj) }),
        ])
    }

    fn konst(&self, c: &mir::ConstOperand<'tcx>) -> J {
        let tcx = self.tcx;
        let k = c.const_;
        let t = k.ty();
        let mut fields: Vec<(&'static str, J)> = vec![("k", s("c")), ("ty", s(ty_str(t)))];
        match t.kind() {
            ty::FnDef(did, args) => {
                fields.push(("fn", s(path_of(tcx, *did))));
                let ga: Vec<J> = args.iter().map(|a| s(full(|| format!("{}", a)))).collect();
                if !ga.is_empty() {
                    fields.push(("ga", J::A(ga)));
                }
                if let Some(r) = self.resolve(*did, args) {
                    fields.push(("res", s(r)));
                }
            }
            ty::Int(_) | ty::Uint(_) | ty::Bool | ty::Char => {
                if let Some(si) = k.try_eval_scalar_int(tcx, self.env) {
                    let sz = si.size();
                    let v: i128 = if matches!(t.kind(), ty::Int(_)) {
                        si.to_int(sz)
                    } else {
                        si.to_uint(sz) as i128
                    };
                    fields.push(("v", J::I(v)));
                }
            }
            ty::Float(_) => {
                if let Some(si) = k.try_eval_scalar_int(tcx, self.env) {
                    let sz = si.size();
                    fields.push(("bits", s(format!("{}", si.to_uint(sz)))));
                }
            }
            ty::Ref(_, inner, _) => {
                if inner.is_str() {
                    if let Ok(v) = k.eval(tcx, self.env, c.span) {
                        if let ConstValue::Slice { .. } | ConstValue::Indirect { .. } = v {
                            if let Some(b) = v.try_get_slice_bytes_for_diagnostics(tcx) {
                                fields.push(("s", s(String::from_utf8_lossy(b).to_string())));
                            }
                        }
                    }
                } else if let ty::Array(e, _) = inner.kind() {
                    if *e == tcx.types.u8 {
                        if let Ok(ConstValue::Scalar(mir::interpret::Scalar::Ptr(ptr, _))) =
                            k.eval(tcx, self.env, c.span)
                        {
                            let (prov, off) = ptr.prov_and_relative_offset();
                            if let rustc_middle::mir::interpret::GlobalAlloc::Memory(a) =
                                tcx.global_alloc(prov.alloc_id())
                            {
                                let a = a.inner();
                                let lo = off.bytes_usize();
                                if lo <= a.len() && a.len() - lo <= 4096 {
                                    let b = a.inspect_with_uninit_and_ptr_outside_interpreter(
                                        lo..a.len(),
                                    );
                                    fields.push((
                                        "bytes",
                                        J::A(b.iter().map(|x| J::I(*x as i128)).collect()),
                                    ));
                                }
                            }
                        }
                    }
                } else if let ty::Slice(e) = inner.kind() {
                    if *e == tcx.types.u8 {
                        if let Ok(v) = k.eval(tcx, self.env, c.span) {
                            if let ConstValue::Slice { .. } | ConstValue::Indirect { .. } = v {
                                if let Some(b) = v.try_get_slice_bytes_for_diagnostics(tcx) {
                                    fields.push((
                                        "bytes",
                                        J::A(b.iter().map(|x| J::I(*x as i128)).collect()),
                                    ));
                                }
                            }
                        }
                    }
                }
            }
            _ => {}
        }
        // textual form (used for anything not evaluated above)
        fields.push(("d", s(full(|| format!("{}", k)))));
        if let Const::Unevaluated(u, _) = k {
            fields.push(("item", s(path_of(tcx, u.def))));
            if u.promoted.is_some() {
                fields.push(("promoted", J::B(true)));
            }
        }
        J::O(fields)
    }

    fn resolve(&self, did: DefId, args: ty::GenericArgsRef<'tcx>) -> Option<String> {
        let tcx = self.tcx;
        // only trait methods need resolution
        tcx.trait_of_assoc(did)?;
        let r = std::panic::catch_unwind(std::panic::AssertUnwindSafe(|| {
            ty::Instance::try_resolve(tcx, self.env, did, args)
        }));
        match r {
            Ok(Ok(Some(inst))) => {
                let d = inst.def_id();
                if d != did {
                    Some(path_of(tcx, d))
                } else {
                    None
                }
            }
            _ => None,
        }
    }

    fn operand(&self, o: &Operand<'tcx>) -> J {
        match o {
            Operand::Copy(p) => {
                J::O(vec![("k", s("cp")), ("pl", self.place(p))])
            }
            Operand::Move(p) => {
                J::O(vec![("k", s("mv")), ("pl", self.place(p))])
            }
            Operand::Constant(c) => self.konst(c),
            #[allow(unreachable_patterns)]
            _ => J::O(vec![("k", s("?")), ("d", s(format!("{:?}", o)))]),
        }
    }

    fn op_ty(&self, o: &Operand<'tcx>) -> String {
        ty_str(o.ty(&self.body.local_decls, self.tcx))
    }

    fn rvalue(&self, rv: &Rvalue<'tcx>) -> J {
        let tcx = self.tcx;
        match rv {
            Rvalue::Use(o, ..) => J::O(vec![("k", s("use")), ("op", self.operand(o))]),
            Rvalue::Repeat(o, n) => J::O(vec![
                ("k", s("repeat")),
                ("op", self.operand(o)),
                ("n", s(full(|| format!("{}", n)))),
            ]),
            Rvalue::Ref(_, bk, p) => J::O(vec![
                ("k", s("ref")),
                ("mut", J::B(matches!(bk, mir::BorrowKind::Mut { .. }))),
                ("pl", self.place(p)),
            ]),
            Rvalue::RawPtr(_, p) => J::O(vec![("k", s("rawptr")), ("pl", self.place(p))]),
            Rvalue::Cast(kind, o, t) => J::O(vec![
                ("k", s("cast")),
                ("ck", s(format!("{:?}", kind))),
                ("op", self.operand(o)),
                ("from", s(self.op_ty(o))),
                ("to", s(ty_str(*t))),
            ]),
            Rvalue::BinaryOp(op, b) => J::O(vec![
                ("k", s("bin")),
                ("op", s(format!("{:?}", op))),
                ("a", self.operand(&b.0)),
                ("b", self.operand(&b.1)),
                ("ty", s(self.op_ty(&b.0))),
            ]),
            Rvalue::UnaryOp(op, o) => J::O(vec![
                ("k", s("un")),
                ("op", s(format!("{:?}", op))),
                ("a", self.operand(o)),
                ("ty", s(self.op_ty(o))),
            ]),
            Rvalue::Discriminant(p) => J::O(vec![
                ("k", s("discr")),
                ("pl", self.place(p)),
                ("ty", s(ty_str(p.ty(&self.body.local_decls, tcx).ty))),
            ]),
            Rvalue::Aggregate(kind, ops) => {
                let mut f: Vec<(&'static str, J)> = vec![("k", s("agg"))];
                match &**kind {
                    AggregateKind::Array(t) => {
                        f.push(("ak", s("array")));
                        f.push(("ty", s(ty_str(*t))));
                    }
                    AggregateKind::Tuple => f.push(("ak", s("tuple"))),
                    AggregateKind::Adt(did, vi, _, _, _) => {
                        f.push(("ak", s("adt")));
                        f.push(("adt", s(path_of(tcx, *did))));
                        let def = tcx.adt_def(*did);
                        let v = def.variant(*vi);
                        f.push(("var", s(v.name.to_string())));
                        f.push(("vi", J::I(vi.index() as i128)));
                        f.push((
                            "fn",
                            J::A(v.fields.iter().map(|x| s(x.name.to_string())).collect()),
                        ));
                    }
                    AggregateKind::Closure(did, _) => {
                        f.push(("ak", s("closure")));
                        f.push(("def", s(path_of(tcx, *did))));
                    }
                    AggregateKind::Coroutine(did, _) => {
                        f.push(("ak", s("coroutine")));
                        f.push(("def", s(path_of(tcx, *did))));
                    }
                    AggregateKind::CoroutineClosure(did, _) => {
                        f.push(("ak", s("coroutine_closure")));
                        f.push(("def", s(path_of(tcx, *did))));
                    }
                    AggregateKind::RawPtr(..) => f.push(("ak", s("rawptr"))),
                }
                f.push(("ops", J::A(ops.iter().map(|o| self.operand(o)).collect())));
                J::O(f)
            }
            Rvalue::CopyForDeref(p) => J::O(vec![
                ("k", s("use")),
                ("op", J::O(vec![("k", s("cp")), ("pl", self.place(p))])),
            ]),
            _ => J::O(vec![("k", s("other")), ("d", s(format!("{:?}", rv)))]),
        }
    }

    fn block(&self, bb: &BasicBlockData<'tcx>) -> J {
        let tcx = self.tcx;
        let mut stmts = Vec::new();
        for st in bb.statements.iter() {
            let (_, line, exp) = loc(tcx, st.source_info.span);
            let j = match &st.kind {
                StatementKind::Assign(b) => {
                    let (p, rv) = &**b;
                    J::O(vec![
                        ("k", s("=")),
                        ("pl", self.place(p)),
                        ("rv", self.rvalue(rv)),
                        ("ln", J::I(line)),
                        ("x", if exp { J::B(true) } else { J::Null }),
                    ])
                }
                StatementKind::SetDiscriminant { place, variant_index } => J::O(vec![
                    ("k", s("setdiscr")),
                    ("pl", self.place(place)),
                    ("vi", J::I(variant_index.index() as i128)),
                    ("ln", J::I(line)),
                ]),
                StatementKind::StorageLive(l) => {
                    J::O(vec![("k", s("live")), ("l", J::I(l.index() as i128))])
                }
                StatementKind::StorageDead(l) => {
                    J::O(vec![("k", s("dead")), ("l", J::I(l.index() as i128))])
                }
                _ => continue,
            };
            stmts.push(j);
        }
        let term = bb.terminator();
        let (_, line, exp) = loc(tcx, term.source_info.span);
        let bbj = |b: mir::BasicBlock| J::I(b.index() as i128);
        let unw = |u: &mir::UnwindAction| match u {
            mir::UnwindAction::Cleanup(b) => J::I(b.index() as i128),
            _ => J::Null,
        };
        let mut t: Vec<(&'static str, J)> = Vec::new();
        match &term.kind {
            TerminatorKind::Goto { target } => {
                t.push(("k", s("goto")));
                t.push(("t", bbj(*target)));
            }
            TerminatorKind::SwitchInt { discr, targets } => {
                t.push(("k", s("switch")));
                t.push(("d", self.operand(discr)));
                t.push(("dty", s(self.op_ty(discr))));
                let signed = matches!(
                    discr.ty(&self.body.local_decls, tcx).kind(),
                    ty::Int(_)
                );
                let bits = match discr.ty(&self.body.local_decls, tcx).kind() {
                    ty::Int(i) => i.bit_width().unwrap_or(64),
                    ty::Uint(u) => u.bit_width().unwrap_or(64),
                    ty::Bool => 8,
                    ty::Char => 32,
                    _ => 128,
                } as u32;
                let mut cases = Vec::new();
                for (v, b) in targets.iter() {
                    let vv: i128 = if signed && bits < 128 {
                        let shift = 128 - bits;
                        ((v << shift) as i128) >> shift
                    } else {
                        v as i128
                    };
                    cases.push(J::A(vec![J::I(vv), bbj(b)]));
                }
                t.push(("cases", J::A(cases)));
                t.push(("else", bbj(targets.otherwise())));
            }
            TerminatorKind::UnwindResume => t.push(("k", s("resume"))),
            TerminatorKind::UnwindTerminate(_) => t.push(("k", s("abort"))),
            TerminatorKind::Return => t.push(("k", s("ret"))),
            TerminatorKind::Unreachable => t.push(("k", s("unreachable"))),
            TerminatorKind::Drop { place, target, unwind, .. } => {
                t.push(("k", s("drop")));
                t.push(("pl", self.place(place)));
                t.push(("t", bbj(*target)));
                t.push(("u", unw(unwind)));
            }
            TerminatorKind::Call { func, args, destination, target, unwind, .. } => {
                t.push(("k", s("call")));
                t.push(("f", self.operand(func)));
                t.push(("args", J::A(args.iter().map(|a| self.operand(&a.node)).collect())));
                t.push((
                    "aty",
                    J::A(args.iter().map(|a| s(self.op_ty(&a.node))).collect()),
                ));
                t.push(("dst", self.place(destination)));
                t.push((
                    "t",
                    match target {
                        Some(b) => bbj(*b),
                        None => J::Null,
                    },
                ));
                t.push(("u", unw(unwind)));
            }
            TerminatorKind::TailCall { func, args, .. } => {
                t.push(("k", s("tailcall")));
                t.push(("f", self.operand(func)));
                t.push(("args", J::A(args.iter().map(|a| self.operand(&a.node)).collect())));
            }
            TerminatorKind::Assert { cond, expected, msg, target, unwind } => {
                t.push(("k", s("assert")));
                t.push(("cond", self.operand(cond)));
                t.push(("exp", J::B(*expected)));
                let (mk, ops): (&str, Vec<&Operand<'tcx>>) = match &**msg {
                    mir::AssertKind::BoundsCheck { len, index } => ("bounds", vec![len, index]),
                    mir::AssertKind::Overflow(op, a, b) => {
                        t.push(("bop", s(format!("{:?}", op))));
                        ("overflow", vec![a, b])
                    }
                    mir::AssertKind::OverflowNeg(a) => ("overflow_neg", vec![a]),
                    mir::AssertKind::DivisionByZero(a) => ("div0", vec![a]),
                    mir::AssertKind::RemainderByZero(a) => ("rem0", vec![a]),
                    _ => ("other", vec![]),
                };
                t.push(("mk", s(mk)));
                t.push(("mops", J::A(ops.iter().map(|o| self.operand(o)).collect())));
                t.push(("t", bbj(*target)));
                t.push(("u", unw(unwind)));
            }
            TerminatorKind::Yield { value, resume, drop, .. } => {
                t.push(("k", s("yield")));
                t.push(("v", self.operand(value)));
                t.push(("t", bbj(*resume)));
                t.push((
                    "drop",
                    match drop {
                        Some(b) => bbj(*b),
                        None => J::Null,
                    },
                ));
            }
            TerminatorKind::CoroutineDrop => t.push(("k", s("cordrop"))),
            TerminatorKind::FalseEdge { real_target, imaginary_target } => {
                t.push(("k", s("falseedge")));
                t.push(("t", bbj(*real_target)));
                t.push(("imag", bbj(*imaginary_target)));
            }
            TerminatorKind::FalseUnwind { real_target, unwind } => {
                t.push(("k", s("falseunwind")));
                t.push(("t", bbj(*real_target)));
                t.push(("u", unw(unwind)));
            }
            TerminatorKind::InlineAsm { .. } => t.push(("k", s("asm"))),
        }
        t.push(("ln", J::I(line)));
        if exp {
            t.push(("x", J::B(true)));
        }
        J::O(vec![
            ("s", J::A(stmts)),
            ("t", J::O(t)),
            ("cleanup", if bb.is_cleanup { J::B(true) } else { J::Null }),
        ])
    }
}

fn vis_str(tcx: TyCtxt<'_>, did: DefId) -> String {
    match tcx.visibility(did) {
        ty::Visibility::Public => "pub".to_string(),
        ty::Visibility::Restricted(m) => format!("in:{}", path_of(tcx, m)),
    }
}

fn dump_body<'tcx>(tcx: TyCtxt<'tcx>, def: LocalDefId, body: &Body<'tcx>) -> Option<J> {
    let did = def.to_def_id();
    let kind = tcx.def_kind(did);
    let env = TypingEnv::post_analysis(tcx, did);
    let cx = Cx { tcx, body, env };
    let (file, line, _) = loc(tcx, body.span);
    let mut names: Vec<Option<String>> = vec![None; body.local_decls.len()];
    for vdi in body.var_debug_info.iter() {
        if let mir::VarDebugInfoContents::Place(p) = &vdi.value {
            if p.projection.is_empty() {
                names[p.local.index()] = Some(vdi.name.to_string());
            }
        }
    }
    let locals: Vec<J> = body
        .local_decls
        .iter_enumerated()
        .map(|(l, d)| {
            // element size of Vec<T> locals (for allocation-size obligations)
            let mut esz = J::Null;
            if let ty::Adt(def, args) = d.ty.kind() {
                let name = path_of(tcx, def.did());
                if name == "alloc::vec::Vec" || name == "alloc::collections::vec_deque::VecDeque" {
                    if let Some(t0) = args.types().next() {
                        if !t0.has_non_region_param() {
                            let r = std::panic::catch_unwind(std::panic::AssertUnwindSafe(|| {
                                tcx.layout_of(env.as_query_input(t0)).ok().map(|l| l.size.bytes())
                            }));
                            if let Ok(Some(sz)) = r {
                                esz = J::I(sz as i128);
                            }
                        }
                    }
                }
            }
            J::O(vec![
                ("ty", s(ty_str(d.ty))),
                ("esz", esz),
                ("mut", if d.mutability.is_mut() { J::B(true) } else { J::Null }),
                (
                    "n",
                    match &names[l.index()] {
                        Some(n) => s(n.clone()),
                        None => J::Null,
                    },
                ),
            ])
        })
        .collect();
    let blocks: Vec<J> = body.basic_blocks.iter().map(|b| cx.block(b)).collect();
    // upvar debug names for closures (captured variable names)
    let mut upv = Vec::new();
    for vdi in body.var_debug_info.iter() {
        if let mir::VarDebugInfoContents::Place(p) = &vdi.value {
            if !p.projection.is_empty() {
                upv.push(J::O(vec![("n", s(vdi.name.to_string())), ("pl", cx.place(p))]));
            }
        }
    }
    let vis = match kind {
        DefKind::Fn | DefKind::AssocFn => s(vis_str(tcx, did)),
        _ => J::Null,
    };
    let reach = match kind {
        DefKind::Fn | DefKind::AssocFn => {
            J::B(tcx.effective_visibilities(()).is_reachable(def))
        }
        _ => J::Null,
    };
    let root = tcx.typeck_root_def_id(did);
    Some(J::O(vec![
        ("path", s(path_of(tcx, did))),
        ("kind", s(format!("{:?}", kind))),
        ("root", s(path_of(tcx, root))),
        ("vis", vis),
        ("reach", reach),
        ("file", s(file)),
        ("line", J::I(line)),
        ("argc", J::I(body.arg_count as i128)),
        ("coroutine", if body.coroutine.is_some() { J::B(true) } else { J::Null }),
        ("locals", J::A(locals)),
        ("upvars", if upv.is_empty() { J::Null } else { J::A(upv) }),
        ("blocks", J::A(blocks)),
    ]))
}

fn dump_items<'tcx>(tcx: TyCtxt<'tcx>) -> (J, J, J, J) {
    let mut adts = Vec::new();
    let mut impls = Vec::new();
    let mut consts = Vec::new();
    let mut fns = Vec::new();
    for ldid in tcx.hir_crate_items(()).definitions() {
        let did = ldid.to_def_id();
        match tcx.def_kind(did) {
            DefKind::Struct | DefKind::Enum | DefKind::Union => {
                let def = tcx.adt_def(did);
                let mut vars = Vec::new();
                for (vi, v) in def.variants().iter_enumerated() {
                    let discr = if def.is_enum() {
                        let d = def.discriminant_for_variant(tcx, vi);
                        J::S(format!("{}", d.val))
                    } else {
                        J::Null
                    };
                    let fields: Vec<J> = v
                        .fields
                        .iter()
                        .map(|f| {
                            J::O(vec![
                                ("n", s(f.name.to_string())),
                                ("ty", s(ty_str(tcx.type_of(f.did).instantiate_identity().skip_norm_wip()))),
                                ("vis", s(vis_str(tcx, f.did))),
                            ])
                        })
                        .collect();
                    vars.push(J::O(vec![
                        ("n", s(v.name.to_string())),
                        ("discr", discr),
                        ("fields", J::A(fields)),
                    ]));
                }
                let (file, line, _) = loc(tcx, tcx.def_span(did));
                adts.push(J::O(vec![
                    ("path", s(path_of(tcx, did))),
                    ("kind", s(format!("{:?}", tcx.def_kind(did)))),
                    ("vis", s(vis_str(tcx, did))),
                    ("file", s(file)),
                    ("line", J::I(line)),
                    ("variants", J::A(vars)),
                ]));
            }
            DefKind::Impl { of_trait } => {
                let self_ty = ty_str(tcx.type_of(did).instantiate_identity().skip_norm_wip());
                let tr = if of_trait {
                    let tref = tcx.impl_trait_ref(did).instantiate_identity().skip_norm_wip();
                    s(full(|| format!("{}", tref.print_only_trait_path())))
                } else {
                    J::Null
                };
                let methods: Vec<J> = tcx
                    .associated_items(did)
                    .in_definition_order()
                    .map(|a| s(path_of(tcx, a.def_id)))
                    .collect();
                let (file, line, _) = loc(tcx, tcx.def_span(did));
                impls.push(J::O(vec![
                    ("self", s(self_ty)),
                    ("trait", tr),
                    ("derived", J::B(tcx.is_automatically_derived(did))),
                    ("items", J::A(methods)),
                    ("file", s(file)),
                    ("line", J::I(line)),
                ]));
            }
            DefKind::Const { .. } | DefKind::AssocConst { .. } => {
                let t = tcx.type_of(did).instantiate_identity().skip_norm_wip();
                let mut f: Vec<(&'static str, J)> =
                    vec![("path", s(path_of(tcx, did))), ("ty", s(ty_str(t)))];
                let generic = tcx.generics_of(did).requires_monomorphization(tcx);
                if !generic && tcx.hir_maybe_body_owned_by(ldid).is_some() {
                    if let Ok(v) = tcx.const_eval_poly(did) {
                        match v {
                            ConstValue::Scalar(sc) => {
                                if let Ok(si) = sc.try_to_scalar_int() {
                                    let sz = si.size();
                                    let iv: i128 = if matches!(t.kind(), ty::Int(_)) {
                                        si.to_int(sz)
                                    } else {
                                        si.to_uint(sz) as i128
                                    };
                                    if matches!(
                                        t.kind(),
                                        ty::Int(_) | ty::Uint(_) | ty::Bool | ty::Char
                                    ) {
                                        f.push(("v", J::I(iv)));
                                    } else {
                                        f.push(("bits", s(format!("{}", si.to_uint(sz)))));
                                    }
                                }
                            }
                            ConstValue::Slice { .. } | ConstValue::Indirect { .. } => {
                                if let ty::Ref(_, inner, _) = t.kind() {
                                    if inner.is_str() {
                                        if let Some(b) = v.try_get_slice_bytes_for_diagnostics(tcx)
                                        {
                                            f.push((
                                                "s",
                                                s(String::from_utf8_lossy(b).to_string()),
                                            ));
                                        }
                                    }
                                }
                            }
                            _ => {}
                        }
                    }
                }
                consts.push(J::O(f));
            }
            DefKind::Fn | DefKind::AssocFn => {
                // signatures (also for trait method declarations without body)
                let sig = tcx.fn_sig(did).instantiate_identity().skip_norm_wip();
                let sig = sig.skip_binder();
                let ins: Vec<J> = sig.inputs().iter().map(|t| s(ty_str(*t))).collect();
                fns.push(J::O(vec![
                    ("path", s(path_of(tcx, did))),
                    ("vis", s(vis_str(tcx, did))),
                    ("reach", J::B(tcx.effective_visibilities(()).is_reachable(ldid))),
                    ("inputs", J::A(ins)),
                    ("output", s(ty_str(sig.output()))),
                    ("async", J::B(tcx.asyncness(did).is_async())),
                ]));
            }
            _ => {}
        }
    }
    (J::A(adts), J::A(impls), J::A(consts), J::A(fns))
}

struct Dump;

impl rustc_driver::Callbacks for Dump {
    fn after_expansion<'tcx>(
        &mut self,
        _c: &rustc_interface::interface::Compiler,
        tcx: TyCtxt<'tcx>,
    ) -> Compilation {
        let out_dir = match std::env::var("MIRFACTS_OUT") {
            Ok(d) => d,
            Err(_) => return Compilation::Continue,
        };
        let krate = tcx.crate_name(rustc_hir::def_id::LOCAL_CRATE).to_string();
        if let Ok(only) = std::env::var("MIRFACTS_ONLY") {
            if !only.split(',').any(|x| x == krate) {
                return Compilation::Continue;
            }
        }
        // Clone every built body first: evaluating constants below may steal
        // `mir_built` of const bodies.
        let mut cloned: Vec<(LocalDefId, Body<'tcx>)> = Vec::new();
        for def in tcx.hir_body_owners() {
            let b = tcx.mir_built(def).borrow().clone();
            cloned.push((def, b));
        }
        let mut bodies = Vec::new();
        for (def, b) in cloned.iter() {
            if let Some(j) = dump_body(tcx, *def, b) {
                bodies.push(j);
            }
        }
        let (adts, impls, consts, fns) = dump_items(tcx);
        let ctypes: Vec<J> =
            tcx.crate_types().iter().map(|t| s(format!("{:?}", t))).collect();
        let mut files = Vec::new();
        for f in tcx.sess.source_map().files().iter() {
            if f.cnum == rustc_hir::def_id::LOCAL_CRATE {
                files.push(s(format!("{}", f.name.prefer_local_unconditionally())));
            }
        }
        let is_test = tcx.sess.opts.test;
        let doc = J::O(vec![
            ("crate", s(krate.clone())),
            ("crate_types", J::A(ctypes)),
            ("test", J::B(is_test)),
            ("files", J::A(files)),
            ("adts", adts),
            ("impls", impls),
            ("consts", consts),
            ("fns", fns),
            ("bodies", J::A(bodies)),
        ]);
        let mut out = String::with_capacity(1 << 22);
        doc.write(&mut out);
        let kind = if is_test { "test" } else { "lib" };
        let ct = tcx
            .crate_types()
            .first()
            .map(|t| format!("{:?}", t).to_lowercase())
            .unwrap_or_default();
        let name = format!("{}/{}.{}.{}.json", out_dir, krate, ct, kind);
        let tmp = format!("{}.tmp{}", name, std::process::id());
        std::fs::write(&tmp, out).expect("mirfacts: cannot write facts");
        std::fs::rename(&tmp, &name).expect("mirfacts: cannot rename facts");
        Compilation::Continue
    }
}

fn main() {
    let mut args: Vec<String> = std::env::args().collect();
    // RUSTC_WORKSPACE_WRAPPER: argv[1] is the real rustc path
    if args.len() > 1 && (args[1].ends_with("rustc") || args[1].contains("/rustc")) {
        args.remove(1);
    }
    let mut cb = Dump;
    rustc_driver::run_compiler(&args, &mut cb);
}
